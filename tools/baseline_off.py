#!/venv/bin/python
"""Run the repository's own test suite with the verification guard OFF (no shim, no hooks on
PYTHONPATH) and check that every test listed as a stable pass in /root/.vp/BASELINE.json passes.
Exit 0 iff all of them pass."""
import json, os, subprocess, sys, tempfile
import xml.etree.ElementTree as ET

def main():
    base = json.load(open('/root/.vp/BASELINE.json'))
    env = {k: v for k, v in os.environ.items()
           if k not in ('PYTHONPATH',) and not k.startswith('MOPEPGEN_VERIF')}
    with tempfile.TemporaryDirectory() as d:
        xml = os.path.join(d, 'junit.xml')
        subprocess.run(['/venv/bin/python', '-m', 'pytest', '-ra', '-q', '-p', 'no:cacheprovider',
                        '--timeout=900', '--continue-on-collection-errors', '--junitxml=' + xml],
                       cwd='/repo', env=env, stdout=subprocess.DEVNULL, stderr=subprocess.DEVNULL)
        passed = set()
        for tc in ET.parse(xml).getroot().iter('testcase'):
            if not any(c.tag in ('failure', 'error', 'skipped') for c in tc):
                passed.add(f"{tc.get('classname')}::{tc.get('name')}")
    missing = [t for t in base['stable_pass'] if t not in passed]
    print(f"baseline stable passes: {len(base['stable_pass'])}, passing now: "
          f"{len(base['stable_pass']) - len(missing)}, total passing: {len(passed)}")
    for t in missing:
        print('MISSING', t)
    return 1 if missing else 0

if __name__ == '__main__':
    sys.exit(main())
