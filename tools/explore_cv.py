#!/venv/bin/python
"""tools/explore_cv.py <stratum|all> <n> [seed0] [light]: triage helper: runs cv cases, prints discrepancies."""
import sys, json, os, collections
sys.path.insert(0, os.path.dirname(os.path.dirname(os.path.abspath(__file__))))
from harness import common
stratum, n = sys.argv[1], int(sys.argv[2])
seed0 = int(sys.argv[3]) if len(sys.argv) > 3 else 0
light = len(sys.argv) > 4 and sys.argv[4] == 'light'
pair = len(sys.argv) > 5
specs = [{'seed': common.hash64('x', seed0, i), 'stratum': None if stratum == 'all' else stratum, 'light': light, 'pair': pair} for i in range(n)]
common.tmp_root()
res, lost = common.shard_run('cvx', specs, timeout_s=7200)
st = collections.Counter()
hk = collections.Counter()
out = open('/tmp/explore_%s.jsonl' % stratum, 'w')
for r in res:
    st['n'] += 1
    if r.get('skipped'): st['skipped'] += 1; continue
    if r.get('error'): st['harness_error'] += 1; print('HARNESS', r['error'][-600:]); continue
    if r.get('tool_error'): st['tool_error'] += 1; out.write(json.dumps(r) + '\n'); print('TOOLERR', r['spec']['seed'], r['tool_error']['type'], r['tool_error']['msg'][:150], 'n_must', r.get('n_must')); continue
    st['nontrivial'] += bool(r.get('nontrivial'))
    flag = False
    for k in ('missing', 'spurious', 'in_canon', 'bad_limits', 'collapse_diff', 'missing_exc', 'spurious_exc'):
        if r.get(k): st[k] += 1; flag = True
    if r.get('dup_seq'): st['dup_seq'] += 1; flag = True
    if r.get('hdr', {}).get('bad'):
        st['hdr_cases'] += 1; flag = True
        for b in r['hdr']['bad']:
            rep = b.get('repair')
            key = b['kind'] if b['kind'] != 'not-witness' else 'not-witness:' + (json.dumps({'add': len(rep['add']), 'drop': len(rep['drop']), 'where': sorted(set(rep['where']['added'].values())) + sorted(set(rep['where']['dropped'].values()))}) if rep else 'no-repair')
            hk[key] += 1
    st['entries'] += r.get('hdr', {}).get('n', 0)
    if r.get('table', {}).get('bad'): st['table'] += 1; flag = True
    if flag:
        out.write(json.dumps(r) + '\n')
print('STATS', dict(st), 'lost', len(lost))
for k, v in hk.most_common(): print('  HDR', v, k)
