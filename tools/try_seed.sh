#!/bin/sh
# usage: tools/try_seed.sh <tree-with-the-change> <check-id> [tier]   -- runs a check against a scratch tree, outputs kept out of /verif
tree=$1; id=$2; tier=${3:-quick}
out=/tmp/seedout/$(basename $tree)-$id
rm -rf $out; mkdir -p $out
cd "$(dirname "$0")/.."
MOPEPGEN_REPO=$tree VERIF_OUT=$out VERIF_TMP=/tmp/seedtmp-$$ ./check $id --tier $tier > $out/log 2>&1
rc=$?
rm -rf /tmp/seedtmp-$$
echo "rc=$rc $(grep -c '^VIOLATION' $out/log) violation lines; $(tail -1 $out/log)"
grep -A1 '^VIOLATION' $out/log | grep -v '^VIOLATION\|^--' | cut -c1-200 | sort | uniq -c | sort -rn | head -5
exit 0
