#!/bin/sh
# Offline setup: optional contract libraries beside the repo's interpreter, smoke test of the shim.
HERE="$(cd "$(dirname "$0")/.." && pwd)"
cd "$HERE" || exit 1
mkdir -p evidence
if [ ! -d .deps/icontract ]; then
  PIP_NO_INDEX=1 /venv/bin/pip install -q --no-index --find-links /opt/veriftools/wheels --target .deps icontract deal >/dev/null 2>&1 \
    || echo "setup: icontract/deal not installed (optional, diagnostic monitors only)"
fi
PYTHONPATH="$HERE/harness/site:${MOPEPGEN_REPO:-/repo}:$HERE" PYTHONWARNINGS=ignore /venv/bin/python - <<'PY' || exit 1
import Bio.SeqIO.Interfaces as I
assert I.SequenceIterator.__name__ == '_LegacySequenceIterator', 'shim not active'
import moPepGen, harness.model.rules, harness.model.digest, harness.gen.refgen
print('setup ok: moPepGen from', moPepGen.__file__)
PY
