#!/bin/sh
# tools/sweep.sh "<ids>" "<seeds>" [tier]  -- run checks over several VERIF_SEED values, outputs kept out of evidence/ (VERIF_OUT)
ids=$1; seeds=$2; tier=${3:-quick}
cd "$(dirname "$0")/.."
for seed in $seeds; do
  for id in $ids; do
    out=/tmp/sweep/$tier-$seed-$id
    rm -rf $out; mkdir -p $out
    s=$(date +%s)
    VERIF_SEED=$seed VERIF_OUT=$out VERIF_TMP=/tmp/sweeptmp-$$ ./check $id --tier $tier > $out/log 2>&1
    rc=$?
    rm -rf /tmp/sweeptmp-$$
    echo "seed=$seed $id rc=$rc t=$(( $(date +%s) - s ))s $(grep -c '^VIOLATION' $out/log) viol; $(grep -E '^INCONCLUSIVE' $out/log | cut -c1-150)"
    grep -A1 '^VIOLATION' $out/log | grep -v '^VIOLATION\|^--' | cut -c1-260 | head -4
  done
done
