#!/venv/bin/python
"""tools/minimize.py <seed> <stratum|""> [cfg-json]: delta-debug the record set of a case: drop records (and options) while
some MUST peptide stays missing / some output stays spurious. Prints the minimal case."""
import sys, os, json, logging, shutil, copy
sys.path.insert(0, os.path.dirname(os.path.dirname(os.path.abspath(__file__))))
logging.disable(logging.CRITICAL)
from harness import cvengine as cv
from harness.monitors import cvmon
seed = int(sys.argv[1]); stratum = sys.argv[2] or None
spec = {'seed': seed, 'stratum': stratum}
if len(sys.argv) > 3: spec['cfg'] = json.loads(sys.argv[3])
case = cv.build_case(spec)
wd = '/tmp/minim'

def probe(case):
    shutil.rmtree(wd, ignore_errors=True); os.makedirs(wd)
    paths = cv.write_case(case, wd)
    o = cv.oracle_sets(case)
    try:
        fa, _ = cvmon.execute(case, wd, paths)
    except Exception as e:
        return ('crash', type(e).__name__ + ':' + str(e)[:80])
    out = {s for _, s in fa}
    miss = sorted(o['must'] - out); spur = sorted(out - o['may'])
    if o['lim'].has_context():
        o2 = cv.oracle_sets(case, lim=o['lim'].mixed_copy('robust')); o3 = cv.oracle_sets(case, lim=o['lim'].mixed_copy('mixed'))
        miss = [p for p in miss if p in o2['must']]; spur = [p for p in spur if p not in o3['may']]
    return (miss, spur, {s: h for h, s in fa})

base = probe(case)
print('base', base[:2] if base[0] != 'crash' else base)
def bad(res):
    if res[0] == 'crash': return base[0] == 'crash'
    if base[0] == 'crash': return False
    return bool(res[0]) == bool(base[0]) and bool(res[1]) == bool(base[1]) and (res[0] or res[1])
changed = True
while changed:
    changed = False
    for fi in range(len(case.files)):
        name, src, recs = case.files[fi]
        for ri in range(len(recs)):
            c2 = copy.copy(case)
            c2.files = [(n, s, list(r)) for n, s, r in case.files]
            del c2.files[fi][2][ri]
            c2.files = [f for f in c2.files if f[2]]
            if not c2.files: continue
            if bad(probe(c2)):
                case = c2; changed = True; break
        if changed: break
for k, v in (('sect', False), ('w2f', False), ('coding_novel_orf', False), ('exception', None), ('miscleavage', 2), ('min_length', 7), ('max_length', 25), ('min_mw', 500.), ('min_nodes_to_collapse', 30), ('naa_to_collapse', 5)):
    if case.cfg[k] != v:
        c2 = copy.copy(case); c2.cfg = dict(case.cfg); c2.cfg[k] = v
        if bad(probe(c2)): case = c2
res = probe(case)
print('MINIMAL cfg', json.dumps(case.cfg))
for g in case.ref.genes:
    for t in g.txs: print('tx', t.id, 'strand', g.strand, 'exons', t.exons, 'cds', t.cds, 'sec', t.sec, 'nf', t.cds_start_nf, t.mrna_end_nf, 'len', t.tx_len())
for r in case.recs(): print('  rec', r.line().split('\t')[1:5], r.line().split('\t')[7][:90] if r.family != 'small' else '')
print('missing', res[0][:6] if res[0] != 'crash' else res, 'spurious', res[1][:6] if res[0] != 'crash' else '')
if res[0] != 'crash':
    for p in res[1][:4]: print('   spurious hdr', p, res[2][p][:150])
    o = cv.oracle_sets(case)
    for bb, ev in o['per']:
        print('bb', bb.id, bb.kind, 'coding', bb.coding, 'start', bb.known_start, 'edits', [(sorted(e.ids), e.start, e.end, e.alt[:10], e.must) for e in bb.edits])
        print('   seq', bb.seq)
