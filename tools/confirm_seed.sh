#!/bin/sh
# tools/confirm_seed.sh <PROP> <worktree> <name>
# Confirms a sub-agent's seeded change in its scratch worktree: demo passes without / fails with the
# change; repository tests (with and without the Biopython shim) are unchanged. Then stores it under seeded/<name>/.
P="$1"; WT="$2"; NAME="${3:-$1}"
HERE="$(cd "$(dirname "$0")/.." && pwd)"
cd "$WT" || exit 2
[ -s patch.diff ] || { echo "no patch.diff"; exit 2; }
cp patch.diff /tmp/confirm_$NAME.diff
git checkout -q -- moPepGen
DEMO=$(ls demo_*.py | head -1)
PYTHONPATH=/tmp/biocompat:$WT /venv/bin/python $DEMO > /tmp/confirm_$NAME.clean.log 2>&1; RC_CLEAN=$?
git apply /tmp/confirm_$NAME.diff || { echo "patch does not apply"; exit 2; }
PYTHONPATH=/tmp/biocompat:$WT /venv/bin/python $DEMO > /tmp/confirm_$NAME.mut.log 2>&1; RC_MUT=$?
/venv/bin/python -m pytest -q -p no:cacheprovider --timeout=900 -x --co -q >/dev/null 2>&1
/venv/bin/python -m pytest -q -p no:cacheprovider --timeout=900 2>&1 | tail -1 > /tmp/confirm_$NAME.noshim.log
PYTHONPATH=/tmp/biocompat /venv/bin/python -m pytest -q -p no:cacheprovider --timeout=900 2>&1 | tail -1 > /tmp/confirm_$NAME.shim.log
NOSHIM=$(cat /tmp/confirm_$NAME.noshim.log); SHIM=$(cat /tmp/confirm_$NAME.shim.log)
echo "demo clean rc=$RC_CLEAN mutated rc=$RC_MUT | noshim: $NOSHIM | shim: $SHIM"
case "$NOSHIM" in *"157 failed, 278 passed"*) ;; *) echo "NOSHIM SUITE CHANGED"; exit 1;; esac
case "$SHIM" in *"4 failed, 431 passed"*) ;; *) echo "SHIM SUITE CHANGED"; exit 1;; esac
[ "$RC_CLEAN" = 0 ] && [ "$RC_MUT" != 0 ] || { echo "DEMO NOT DISCRIMINATING"; exit 1; }
mkdir -p "$HERE/seeded/$NAME"
cp patch.diff "$HERE/seeded/$NAME/patch.diff"
cp $DEMO "$HERE/seeded/$NAME/"
[ -f NOTES.md ] && cp NOTES.md "$HERE/seeded/$NAME/NOTES.md"
cat > "$HERE/seeded/$NAME/meta.json" <<META
{"property": "$P", "name": "$NAME", "confirmed": {"demo_clean_rc": $RC_CLEAN, "demo_mutated_rc": $RC_MUT, "suite_noshim": "$NOSHIM", "suite_shim": "$SHIM"},
 "ran": "tools/confirm_seed.sh $P $WT $NAME (demo with/without patch; pytest with and without Biopython shim)",
 "needs": "see NOTES.md", "detected_by": "pending"}
META
echo CONFIRMED $NAME
