#!/bin/sh
# tools/seed_matrix.sh <seeded-name> "<check ids>" [tier]
# Applies seeded/<name>/patch.diff to a scratch worktree of /repo (outside /repo and /verif), runs the given checks against it
# with outputs redirected (VERIF_OUT), prints one line per check, removes the worktree.
name=$1; ids=$2; tier=${3:-quick}
HERE="$(cd "$(dirname "$0")/.." && pwd)"
wt=/tmp/sm/$name
rm -rf $wt; mkdir -p /tmp/sm
git -C /repo worktree add -q --detach $wt HEAD || exit 2
git -C $wt apply $HERE/seeded/$name/patch.diff || { echo "patch does not apply"; git -C /repo worktree remove --force $wt; exit 2; }
for id in $ids; do
  printf "%s %s: " $name $id
  $HERE/tools/try_seed.sh $wt $id $tier | head -3 | tr '\n' ' '
  echo
done
git -C /repo worktree remove --force $wt
