#!/venv/bin/python
"""tools/dryrun_plans.py [tier]: builds the case plan of every check for the given tier (default thorough) without executing a case
(common.shard_run is replaced) - a plan that raises would make the registered thorough command fail at once."""
import sys, os, importlib, collections
sys.path.insert(0, os.path.dirname(os.path.dirname(os.path.abspath(__file__))))
from harness import common
tier = sys.argv[1] if len(sys.argv) > 1 else 'thorough'
sizes = {}
def fake(name, specs, timeout_s=None, **kw):
    sizes[name] = (len(specs), collections.Counter(s.get('kind', s.get('stratum', '-')) for s in specs).most_common(6))
    return [], []
common.shard_run = fake
bad = 0
for i in range(1, 21):
    pid = f'C{i:02d}'
    m = importlib.import_module(f'harness.monitors.{pid.lower()}')
    rep = common.Report(pid, tier, 0)
    try:
        m.check(rep, tier, 0)
        print(pid, 'plan ok', sizes.get(pid.lower()))
    except Exception as e:
        bad += 1
        print(pid, 'PLAN FAILED', type(e).__name__, e)
sys.exit(1 if bad else 0)
