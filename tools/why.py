#!/venv/bin/python
"""tools/why.py <seed> <stratum> [light]: for each missing/spurious peptide of a case print the haplotypes that explain it."""
import sys, os, json, logging, shutil
sys.path.insert(0, os.path.dirname(os.path.dirname(os.path.abspath(__file__))))
logging.disable(logging.CRITICAL)
from harness import cvengine as cv, drivers
from harness.monitors import cvmon
from harness.model import oracle as orc
seed = int(sys.argv[1]); stratum = sys.argv[2]
spec = {'seed': seed, 'stratum': stratum, 'light': len(sys.argv) > 3 and sys.argv[3] == 'light'}
if len(sys.argv) > 4: spec['cfg'] = json.loads(sys.argv[4])
case = cv.build_case(spec)
wd = '/tmp/why'; shutil.rmtree(wd, ignore_errors=True); os.makedirs(wd)
paths = cv.write_case(case, wd)
print(json.dumps(cv.describe(case)['cfg']))
for g in case.ref.genes:
    for t in g.txs: print('tx', t.id, 'strand', g.strand, 'exons', t.exons, 'cds', t.cds, 'sec', t.sec, 'nf', t.cds_start_nf, t.mrna_end_nf, 'len', t.tx_len())
for r in case.recs(): print('  rec', r.line().split('\t')[1:5], r.line().split('\t')[7][:80] if r.family != 'small' else '')
o = cv.oracle_sets(case)
try:
    fa, _ = cvmon.execute(case, wd, paths)
except Exception as e:
    import traceback; traceback.print_exc(); sys.exit()
out = {s for _, s in fa}
hdr = {s: h for h, s in fa}
missing = sorted(o['must'] - out); spurious = sorted(out - o['may'])
print('n_out', len(out), 'missing', missing, 'spurious', spurious)
lim, flags = o['lim'], o['flags']
for p in missing[:6]:
    for bb, ev in o['per']:
        haps = ([()] if bb.kind != 'main' else []) + orc.haplotypes(bb.edits)
        for h in haps:
            if all(e.must for e in h) and orc.compatible_must(h, flags.max_adjacent) and p in orc.backbone_peptides(bb, h, lim, flags, True, 1e-3):
                hap, pm = orc.apply_edits(bb.seq, h)
                print('  MISSING', p, 'bb', bb.id, bb.kind, 'hap', [sorted(e.ids) for e in h], [(e.start, e.end) for e in h], 'len', len(bb.seq))
for p in spurious[:6]:
    print('  SPURIOUS', p, hdr[p])
for bb, ev in o['per']:
    print('bb', bb.id, bb.kind, 'len', len(bb.seq), 'coding', bb.coding, 'start', bb.known_start, 'edits', [(sorted(e.ids), e.start, e.end, e.alt[:8], e.must) for e in bb.edits], getattr(bb, 'note', ''))
    print('   seq', bb.seq[:400])
