#!/bin/sh
# tools/revert_matrix.sh <fix-commit> "<check ids>" [tier]
# A fixed defect must be reported again if it ever returns: reverses one `fix:` commit of /repo in a scratch worktree under
# /tmp/sm (never in /repo itself), runs the checks against it and removes the worktree.
sha=$1; ids=$2; tier=${3:-quick}
HERE="$(cd "$(dirname "$0")/.." && pwd)"
wt=/tmp/sm/rev-$sha
mkdir -p /tmp/sm; rm -rf $wt
git -C /repo worktree add -q --detach $wt HEAD || exit 2
git -C /repo show -R $sha -- moPepGen | git -C $wt apply || { echo "reverse patch does not apply"; git -C /repo worktree remove --force $wt; exit 2; }
for id in $ids; do
  printf "revert %s %s: " $sha $id
  $HERE/tools/try_seed.sh $wt $id $tier | head -2 | tr '\n' ' ' | cut -c1-300
  echo
done
git -C /repo worktree remove --force $wt
