#!/venv/bin/python
"""Regenerates MANIFEST.json from the table below (keeps it valid while checks are added)."""
import json
from pathlib import Path

ROOT = Path(__file__).resolve().parent.parent
PROPS = [json.loads(l) for l in open(ROOT / 'properties.jsonl')]

# property -> (level, technique, level text, level note, design ref)
CHECKS = {}


def reg(pid, level, technique, text, note, ref):
    CHECKS[pid] = dict(level=level, technique=technique, text=text, note=note, ref=ref)


TB = ('Trusted base: the harness generators and the definitional model under harness/model (no moPepGen imports), '
      'Bio.SeqUtils.molecular_weight, the Biopython-1.88 compatibility shim harness/site/sitecustomize.py. ')

reg('C10', 'exploration',
    'runtime monitor: reference-model oracle (positional PeptideCutter table, definitional digest) over exhaustive '
    'bounded string enumeration and generated proteomes',
    'Every one of the 35 rules (+ trypsin exception) is executed through the repository API on all strings up to a '
    'bounded length over the rule alphabet and compared with an independent positional table; site and range patterns '
    'are checked to pair up and ranges to carry enough context; canonical pools built by load_references with the CLI '
    'default exception are compared with a definitional digest on generated proteomes. Held = on those executions.',
    TB + 'Rule table transcribed from PeptideCutter documentation from memory; positions named by a rule must be occupied.',
    'DESIGN.md section 6 C10')

CV = ('Each case is one real callVariant execution (in-process, working tree) on a generated reference + GVF set; the oracle is an '
      'independent definitional model (harness/model/oracle.py) enumerating every haplotype. ')
reg('C01', 'exploration', 'runtime monitor: reference-model oracle (MUST subset of output) + metamorphic pair (collapse knobs) over generated inputs',
    CV + 'Completeness: the conservative MUST set must be contained in the FASTA; the same case under two collapse-knob settings must give the '
    'same sequences. Held = on the executions of this run; known findings are attributed by mechanism predicates over the witness haplotypes and bounded by per-class rate ceilings '
    '(a rate jump is reported as known-finding-drift).',
    TB + 'The MAY-MUST gap (clauses the statement leaves open) is listed in the evidence rule text and is not decided.', 'DESIGN.md section 6 C01')
reg('C02', 'exploration', 'runtime monitor: reference-model oracle (output subset of MAY) + metamorphic relations under binding limits and injected timeouts',
    CV + 'Soundness: every output sequence must be a liberal digestion product of some haplotype; on dense clusters outputs under binding limits and '
    'under injected TimeoutErrors (source-free failpoint, retry path of caller_reducer) must be subsets of the unlimited output, retry parameters '
    'must not increase and exhaustion must raise without a FASTA.', TB, 'DESIGN.md section 6 C02')
reg('C03', 'exploration', 'runtime monitor: witness oracle over every (peptide, header entry) pair of generated runs',
    CV + 'Every header entry is parsed with an own grammar, resolved against the input records of its backbone and re-derived: exactly the named records '
    'must produce the peptide; entry strings must be unique. Deviations are clustered by minimal repair and only the recorded mechanisms are tolerated.',
    TB + 'Labels are not reproducible run to run (address-hashed sets), so known label findings are keyed by predicate, not by instance.', 'DESIGN.md section 6 C03')
reg('C04', 'exploration', 'runtime monitor: invariant checks on outputs (canonical pool from own digest, limits, uniqueness, table/FASTA agreement)',
    CV + 'Hygiene invariants are evaluated on every output of callVariant and on callNovelORF / callAltTranslation runs on generated references.',
    TB, 'DESIGN.md section 6 C04')

reg('C13', 'exploration', 'runtime monitor: round-trip fixed-point oracle and pointer-vs-linear-scan model over generated GVF files; fault = edit after indexing',
    'Real reader/writer/index code is run on generated GVF files of every record kind, split/shuffled across files, with and without .idx, with non-ASCII '
    'bytes; write(parse(write(r))) must be a fixed point preserving every field; pointer access must equal a linear scan by an own parser; an edited '
    'indexed file must be rejected.', TB, 'DESIGN.md section 6 C13')
reg('C20', 'exploration', 'runtime monitor: invariant oracle (permutation, fixed positions, header, order) + paired executions (same seed, permuted input)',
    'decoyFasta is executed on generated target sets over the option grid; each decoy is checked against an own implementation of reversal around fixed '
    'positions and the permutation/fixed-position invariants; paired runs check reproducibility and order independence.', TB, 'DESIGN.md section 6 C20')

reg('C18', 'exploration', 'runtime monitor: conservation oracle (partition / union / invertibility / totals) + own model of the source-set priority over real callVariant outputs',
    'splitFasta, mergeFasta, encodeFasta, decoyFasta+encodeFasta and summarizeFasta are executed on FASTAs produced by real callVariant runs with one GVF per '
    'source, optionally together with real callNovelORF / callAltTranslation FASTAs sharing sequences with it; conservation laws and the database assignment (own implementation of '
    'the documented ordering) are checked per peptide over the union of entries; summarize is tied to split.',
    TB + 'Wildcard source orders (+,*) are not generated; entries are compared modulo the order of their fields.', 'DESIGN.md section 6 C18')
reg('C19', 'exploration', 'runtime monitor: per-entry predicate oracle + metamorphic relations (idempotence, monotonicity) over real callVariant outputs and generated FASTAs of every label kind',
    'filterFasta is executed on real FASTAs and on generated multi-entry FASTAs (base / novel ORF / fusion over coding x non-coding pairs / circRNA labels) with generated expression tables (values around the cutoff), denylists and flag combinations, with the reference '
    'as index directory or raw GTF; the kept entries must equal an own evaluation of the documented rule; a second pass must change nothing; stricter settings '
    'must keep a subset.', TB, 'DESIGN.md section 6 C19')

reg('C05', 'exploration', 'runtime monitor: metamorphic relations over paired callVariant executions (inclusion + attribution predicates)',
    'The same generated input is executed under ordered pairs of configurations / record sets / file sets; the smaller run must be included in the larger and '
    'added peptides must be attributable (sequence-level limit predicate, SECT/W2F/ORF identifiers, not demanded without the added record). Includes dense inputs '
    'that are too large for haplotype enumeration, compared by strict inclusion with limits disabled. Limit chains also take their values from peptides of the output and '
    'from canonical peptides (limits exactly on a peptide); file-set pairs are repeated through the CLI with --threads 2/3/4.', TB, 'DESIGN.md section 6 C05')

reg('C06', 'exploration', 'runtime monitor: metamorphic equality over paired executions that differ in one schedule/layout factor (CLI with ppft workers, hash seeds, file layouts, .idx, index directory)',
    'One logical input is executed under different --threads values (real ppft worker processes, batch shapes with skipped transcripts at first/middle/last '
    'position), GVF partitions/orders with and without indexGVF files, raw vs generateIndex reference and PYTHONHASHSEED values; every output must equal '
    'the --threads 1 single-file base run. Thorough enumerates the (n_tx<=9, skipped subset, threads<=8) shapes. Hash seeds, file layouts (one record per file, reversed halves) '
    'and raw-vs-index references (free cleavage settings) are also varied on rich engine cases (several units per transcript, fusions, nested AS, circRNA, paralogous genes).', TB + 'The base run is tied to the definitional oracle by C01/C02.',
    'DESIGN.md section 6 C06')
reg('C07', 'fault_enumeration', 'runtime monitor with source-free failpoints: every single fault and pairs over the processing units, in-process and in ppft workers',
    'Failpoints raise inside call_peptide_main / _fusion / _circ_rna for a chosen set of units; recording wrappers capture what every unit returns. With '
    '--skip-failed: completion, tally, untouched surviving units, no loss of their peptides, absence of the failed units\' exclusive peptides; without it: '
    'abort and no FASTA. All single faults (and pairs, triples in thorough) of each generated case are enumerated. CLI runs with --threads 1/2/3 and 1-2 failpoints outside '
    'the last transcript also check the printed tally. Natural data faults (a record that invalidates the whole variant series of one transcript) are generated as well: the run must '
    'complete, tally one invalid transcript, never call its units and leave units not involving it unchanged. Timeout faults: the first attempt of one transcript '
    'times out (injected) and is retried down the limit ladder; units of the other transcripts must be unchanged.', TB + 'Injected faults are exceptions at the entry of the per-unit callers; '
    'a natural fault the tool tolerates (run without --skip-failed completes) is not judged.',
    'DESIGN.md section 6 C07')
reg('C08', 'exploration', 'runtime monitor: two-sided reference-model oracle (own transcript selection + ATG-ORF digest) and ORF-FASTA invariants over generated references',
    'callNovelORF is executed in-process on generated references over the option grid; output must contain MUST and be contained in MAY of an own '
    'definitional ORF digest; transcript selection (coding only with --coding-novel-orf, gene-biotype lists, length) is re-implemented; the ORF FASTA is '
    'checked by re-translating the stated coordinates.', TB + 'W>F forms of canonical peptides and pepsin are left open.', 'DESIGN.md section 6 C08')
reg('C09', 'exploration', 'runtime monitor: two-sided reference-model oracle for SECT / W2F forms and per-entry witness check over generated selenoprotein references',
    'callAltTranslation is executed on generated references with 0-3 Sec codons and NF flags; output vs own digest of Sec-terminated and W>F-substituted '
    'forms minus the plain digest and canonical pool; each header entry must name events that suffice (SECT at an annotated Sec codon, W2F at an F).',
    TB, 'DESIGN.md section 6 C09')

reg('C11', 'exploration', 'runtime monitor: reference-model oracle evaluated on EVERY position of generated annotations + sequential history monitor (on-disk vs parsed models) + round-trip oracle',
    'GenomicAnnotation (GTF parser) and GenomicAnnotationOnDisk are driven on generated annotations; every coordinate conversion, sequence, ORF and Sec '
    'position is compared with an independent object model at every position; on-disk pointers are exercised by access histories longer than the cache; '
    'GtfIO.write -> parse must preserve the models.', TB, 'DESIGN.md section 6 C11')
reg('C12', 'exploration', 'runtime monitor: sequential history monitor against a dictionary model (params -> definitional pool), with refusal, isolation and tamper checks',
    'Histories of generateIndex / updateIndex (+/- --force) / load over five parameter sets are executed in-process on a generated reference; after every '
    'operation the directory and the loaded data are compared with a dictionary model whose pools come from the definitional digest. A quarter of the histories contain '
    'a version-mismatch event (metadata as written by another python / biopython / moPepGen): load and update must then be rejected, a forced rebuild must load again.', TB,
    'DESIGN.md section 6 C12')

PARSER = 'The parser command is executed on generated tool output derived from a generated reference whose object model is the oracle. '
reg('C14', 'exploration', 'runtime monitor: reference-model oracle (apply record to gene sequence == re-extract gene from edited chromosome; re-implemented threshold arithmetic) over generated VEP / REDItools tables',
    PARSER + 'parseVEP: every converted event must reproduce the genomic edit and carry the gene REF; boundary events may only be rejected. parseREDItools: emitted '
    'record set equals the re-implemented filter at threshold-1/threshold/threshold+1.', TB, 'DESIGN.md section 6 C14')
reg('C15', 'exploration', 'runtime monitor: reference-model oracle (record set, breakpoint coordinates, fused sequence from genome coordinates) for three tool formats + end-to-end callVariant witness check',
    PARSER + 'The same logical fusions are written as STAR-Fusion, FusionCatcher and Arriba rows; the emitted (donor, acceptor, POS, ACCEPTER_POSITION) sets, '
    'the sequences the records denote and the skip rules are compared with the model; callVariant on the emitted GVF must only label digestion products of the fused sequence.',
    TB, 'DESIGN.md section 6 C15')
reg('C16', 'exploration', 'runtime monitor: reference-model oracle (record applied to transcript == alternative exon list) over rMATS events constructed from transcripts',
    PARSER + 'Events of all five rMATS types are built from a transcript and an explicit alternative exon list (both directions, both strands); every constrained record '
    'must reproduce the alternative sequence; rows below the thresholds and fully annotated events must emit nothing; in a second run per case an added isoform that carries every '
    'junction of an emitted event\'s alternative form (other outer ends) must silence that event\'s records.', TB + 'Completeness of emission is not claimed by the '
    'property and is only counted (alternatives_not_emitted).', 'DESIGN.md section 6 C16')
reg('C17', 'exploration', 'runtime monitor: reference-model oracle (fragments, circular sequence, id, skip rules) over generated CIRCexplorer2/3 tables, partly through the real CLI',
    PARSER + 'Exon circles, ciRNAs with boundary jitter around the tolerance, unknown exons and evidence values around the thresholds; fragments, sequence and id are '
    'compared with the model; a sample runs through the command line so the option wiring is exercised.', TB, 'DESIGN.md section 6 C17')

NOT_YET = 'check not built yet in this session (runtime-monitoring design exists in DESIGN.md section 6); will be claimed when its monitor is committed'


def main():
    checks = []
    for p in PROPS:
        pid = p['id']
        if pid not in CHECKS:
            continue
        c = CHECKS[pid]
        checks.append({
            'property_id': pid,
            'quick_cmd': f'./check {pid} --tier quick',
            'thorough_cmd': f'./check {pid} --tier thorough',
            'evidence_file': f'evidence/{pid}.json',
            'replay_cmd_template': f'./check {pid} --replay {{path}}',
            'engine': 'harness',
            'level_claimed': {'category': c['level'], 'text': c['text'], 'design_ref': c['ref']},
            'level_note': c['note'],
            'technique': c['technique'],
        })
    na = [{'property_id': p['id'], 'reason': NOT_YET} for p in PROPS if p['id'] not in CHECKS]
    man = {
        'version': 1,
        'setup_cmd': './tools/setup.sh',
        'hooks': {
            'guard': 'MOPEPGEN_VERIF',
            'enable': 'No source hooks in /repo. External instrumentation: PYTHONPATH=<verif>/harness/site (sitecustomize.py: '
                      'Biopython compatibility shim always; with MOPEPGEN_VERIF=1 a post-import hook wraps the per-unit callers of '
                      'moPepGen.cli.call_variant_peptide for failpoints/timeouts/trace, also inside ppft workers). Checks import '
                      'moPepGen from /repo\'s working tree via PYTHONPATH; nothing is installed or cached.',
            'baseline_off_cmd': './tools/baseline_off.py',
            'source_commits': [],
            'add_only': True,
        },
        'engines': [
            {'name': 'harness', 'path': 'harness', 'serves_properties': sorted(CHECKS),
             'kind_free_text': 'runtime monitoring: generated workloads -> real code (in-process, CLI subprocess, ppft workers) -> '
                               'oracle over observed outputs / histories (reference models, metamorphic relations, fault injection)'},
        ],
        'checks': checks,
        'not_applicable': na,
        'notes': 'See DESIGN.md. Genuine defects repaired in /repo by fix: commits are listed in known_findings.json (fixed entries); '
                 'open known findings are printed as KNOWN-FINDING lines.',
    }
    (ROOT / 'MANIFEST.json').write_text(json.dumps(man, indent=1) + '\n')
    print('claimed', sorted(CHECKS), 'not claimed', [x['property_id'] for x in na])


if __name__ == '__main__':
    main()
