#!/bin/sh
# tools/kf_rates.sh "<ids>" "<seeds>" [tier]: run checks over seeds (outputs under /tmp/kfr) and print the per-class known-finding rates
ids=$1; seeds=$2; tier=${3:-quick}
cd "$(dirname "$0")/.."
for seed in $seeds; do for id in $ids; do
  out=/tmp/kfr/$tier-$seed-$id; rm -rf $out; mkdir -p $out
  VERIF_SEED=$seed VERIF_OUT=$out VERIF_TMP=/tmp/kfrtmp-$$ ./check $id --tier $tier > $out/log 2>&1; echo "seed=$seed $id rc=$? $(grep -c '^VIOLATION' $out/log) viol"
  rm -rf /tmp/kfrtmp-$$
done; done
/venv/bin/python - <<'PY'
import json,glob,collections
agg=collections.defaultdict(list)
for f in glob.glob('/tmp/kfr/*/evidence/*.json'):
    d=json.load(open(f))
    for k,(n,c,r) in d['coverage'].get('known_finding_rates',{}).items():
        agg[(d['property_id'],k)].append((n,c,r))
for k,v in sorted(agg.items()):
    print(k, 'runs',len(v),'max_rate',max(x[2] for x in v),'mean',round(sum(x[2] for x in v)/len(v),4),'cases',v[0][1])
PY
