"""Prototype reference + variant generator (scratch; independent of moPepGen)."""
import random

COMP = str.maketrans('ACGT', 'TGCA')
STOPS = {'TAA', 'TAG', 'TGA'}


def revcomp(s):
    return s.translate(COMP)[::-1]


class Tx:
    def __init__(self, tx_id, gene, exons, coding, cds=None, sec=None,
                 cds_start_nf=False, mrna_end_nf=False):
        self.id = tx_id
        self.gene = gene
        self.exons = exons          # gene-coordinate [s,e) sorted
        self.coding = coding
        self.cds = cds              # (tx_start, tx_end) orf in tx coords, end = stop codon start
        self.sec = sec or []        # tx coords of Sec codon starts
        self.cds_start_nf = cds_start_nf
        self.mrna_end_nf = mrna_end_nf
        self.protein_id = tx_id.replace('T', 'P', 1)

    def tx_len(self):
        return sum(e - s for s, e in self.exons)

    def tx2gene(self, i):
        for s, e in self.exons:
            if i < e - s:
                return s + i
            i -= e - s
        raise IndexError(i)

    def gene2tx(self, g):
        off = 0
        for s, e in self.exons:
            if s <= g < e:
                return off + g - s
            off += e - s
        return None

    def seq(self, gene_seq):
        return ''.join(gene_seq[s:e] for s, e in self.exons)


class Gene:
    def __init__(self, gid, chrom, start, end, strand, name, biotype):
        self.id = gid
        self.chrom = chrom
        self.start = start    # genomic 0-based
        self.end = end
        self.strand = strand
        self.name = name
        self.biotype = biotype
        self.txs = []

    def g2genomic(self, g):
        return self.start + g if self.strand == 1 else self.end - 1 - g

    def seq(self, chrom_seq):
        s = chrom_seq[self.start:self.end]
        return s if self.strand == 1 else revcomp(s)


class Reference:
    def __init__(self):
        self.chroms = {}
        self.genes = []

    def gene_seq(self, gene):
        return gene.seq(self.chroms[gene.chrom])

    def set_gene_base(self, gene, g, base):
        """Set base at gene coordinate g (gene orientation)."""
        pos = gene.g2genomic(g)
        c = self.chroms[gene.chrom]
        b = base if gene.strand == 1 else base.translate(COMP)
        self.chroms[gene.chrom] = c[:pos] + b + c[pos + 1:]


def make_reference(rng, n_genes=1, coding_p=0.6, sec_p=0.15, nf_p=0.15,
                   min_exons=1, max_exons=5, exon_len=(20, 120), intron_len=(15, 80)):
    ref = Reference()
    chrom = 'chr1'
    parts = []
    pos = 0
    specs = []
    pad = rng.randint(5, 30)
    parts.append(''.join(rng.choice('ACGT') for _ in range(pad)))
    pos += pad
    for gi in range(n_genes):
        n_ex = rng.randint(min_exons, max_exons)
        exons = []
        g = 0
        for i in range(n_ex):
            l = rng.randint(*exon_len)
            exons.append((g, g + l))
            g += l
            if i < n_ex - 1:
                g += rng.randint(*intron_len)
        glen = g
        strand = rng.choice((1, -1))
        specs.append((gi, pos, pos + glen, strand, exons))
        parts.append(''.join(rng.choice('ACGT') for _ in range(glen)))
        pos += glen
        pad = rng.randint(5, 30)
        parts.append(''.join(rng.choice('ACGT') for _ in range(pad)))
        pos += pad
    ref.chroms[chrom] = ''.join(parts)
    for gi, s, e, strand, exons in specs:
        coding = rng.random() < coding_p
        gene = Gene(f'ENSG{gi + 1:011d}.1', chrom, s, e, strand, f'GENE{gi + 1}',
                    'protein_coding' if coding else 'lncRNA')
        tx = Tx(f'ENST{gi + 1:011d}.1', gene, exons, coding)
        gene.txs.append(tx)
        ref.genes.append(gene)
        if coding:
            _make_coding(rng, ref, gene, tx, sec_p, nf_p)
    return ref


def _make_coding(rng, ref, gene, tx, sec_p, nf_p):
    L = tx.tx_len()
    cds_start_nf = rng.random() < nf_p
    mrna_end_nf = rng.random() < nf_p
    if L < 40:
        cds_start_nf = mrna_end_nf = False
    if cds_start_nf:
        start = rng.randint(0, 2)   # frame offset of first CDS
    else:
        start = rng.randint(0, max(0, min(L // 3, 40)))
    n_codons_max = (L - start) // 3
    if mrna_end_nf:
        n_codons = n_codons_max
        end = start + n_codons * 3
    else:
        n_codons = rng.randint(max(4, n_codons_max // 2), max(4, n_codons_max - 1))
        n_codons = min(n_codons, n_codons_max - 1)
        end = start + n_codons * 3
    if n_codons < 4:
        tx.coding = False
        gene.biotype = 'lncRNA'
        return

    def setb(i, b):
        ref.set_gene_base(gene, tx.tx2gene(i), b)

    if not cds_start_nf:
        for k, b in enumerate('ATG'):
            setb(start + k, b)
    # remove internal stops
    gs = ref.gene_seq(gene)
    s = tx.seq(gs)
    for c in range(start + (0 if cds_start_nf else 3), end, 3):
        while s[c:c + 3] in STOPS:
            for k in range(3):
                setb(c + k, rng.choice('ACGT'))
            gs = ref.gene_seq(gene)
            s = tx.seq(gs)
    if not mrna_end_nf:
        for k, b in enumerate(rng.choice(sorted(STOPS))):
            setb(end + k, b)
    sec = []
    if rng.random() < sec_p and n_codons > 8:
        for _ in range(rng.choice((1, 1, 2))):
            c = start + 3 * rng.randint(2, n_codons - 2)
            # codon must not span an exon junction (annotation is a 3nt feature)
            g0, g2 = tx.tx2gene(c), tx.tx2gene(c + 2)
            if g2 - g0 != 2 or c in sec:
                continue
            for k, b in enumerate('TGA'):
                setb(c + k, b)
            sec.append(c)
    tx.cds = (start, end)
    tx.sec = sorted(sec)
    tx.cds_start_nf = cds_start_nf
    tx.mrna_end_nf = mrna_end_nf


def translate(dna, sec_positions=()):
    from Bio.Seq import Seq
    n = len(dna) - len(dna) % 3
    aa = str(Seq(dna[:n]).translate())
    if sec_positions:
        aa = list(aa)
        for p in sec_positions:
            if p % 3 == 0 and p // 3 < len(aa) and dna[p:p + 3] == 'TGA':
                aa[p // 3] = 'U'
        aa = ''.join(aa)
    return aa


def write_reference(ref, outdir, utr_includes_stop=True):
    """Write genome.fasta, annotation.gtf (GENCODE style), proteome.fasta"""
    import os
    os.makedirs(outdir, exist_ok=True)
    with open(f'{outdir}/genome.fasta', 'w') as fh:
        for k, v in ref.chroms.items():
            fh.write(f'>{k}\n')
            for i in range(0, len(v), 60):
                fh.write(v[i:i + 60] + '\n')
    gtf = []
    prot = []
    for gene in ref.genes:
        st = '+' if gene.strand == 1 else '-'
        gattr = f'gene_id "{gene.id}"; gene_type "{gene.biotype}"; gene_name "{gene.name}";'
        gtf.append('\t'.join([gene.chrom, 'HAVANA', 'gene', str(gene.start + 1), str(gene.end),
                              '.', st, '.', gattr]))
        gs = ref.gene_seq(gene)
        for tx in gene.txs:
            tags = ''
            if tx.cds_start_nf:
                tags += ' tag "cds_start_NF";'
            if tx.mrna_end_nf:
                tags += ' tag "mRNA_end_NF";'
            tattr = (f'gene_id "{gene.id}"; transcript_id "{tx.id}"; gene_type "{gene.biotype}"; '
                     f'gene_name "{gene.name}"; transcript_type "{gene.biotype}";')
            if tx.coding:
                tattr += f' protein_id "{tx.protein_id}";'
            tattr += tags

            def gline(ftype, gs_, ge_, frame='.'):
                # gene coords [gs_, ge_) -> genomic 1-based inclusive
                if gene.strand == 1:
                    a, b = gene.start + gs_, gene.start + ge_
                else:
                    a, b = gene.end - ge_, gene.end - gs_
                return '\t'.join([gene.chrom, 'HAVANA', ftype, str(a + 1), str(b), '.', st,
                                  str(frame), tattr])
            gtf.append(gline('transcript', tx.exons[0][0], tx.exons[-1][1]))
            lines = []
            if tx.coding:
                cs, ce = tx.cds
                cs0 = 0 if tx.cds_start_nf else cs   # CDS feature starts at tx start for NF
                consumed = -cs if tx.cds_start_nf else 0  # bases of coding seq before this CDS chunk
                off = 0
                for (s, e) in tx.exons:
                    l = e - s
                    a = max(off, cs0)
                    b = min(off + l, ce)
                    lines.append((s, gline('exon', s, e)))
                    if a < b:
                        frame = (3 - consumed % 3) % 3 if consumed >= 0 else (-consumed) % 3
                        lines.append((s + (a - off), gline('CDS', s + (a - off), s + (b - off), frame)))
                        consumed += b - a
                    # UTRs
                    if off < cs0:
                        ue = min(off + l, cs0)
                        lines.append((s, gline('UTR', s, s + (ue - off))))
                    utr3 = ce if utr_includes_stop else ce + 3
                    if off + l > utr3 and utr3 < tx.tx_len():
                        us = max(off, utr3)
                        lines.append((s + (us - off), gline('UTR', s + (us - off), e)))
                    off += l
                for c in tx.sec:
                    g0 = tx.tx2gene(c)
                    lines.append((g0, gline('Selenocysteine', g0, g0 + 3)))
                txs = tx.seq(gs)
                aa = translate(txs[cs:ce], [c - cs for c in tx.sec])
                prot.append((f'{tx.protein_id}|{tx.id}|{gene.id}|-', aa))
            else:
                for (s, e) in tx.exons:
                    lines.append((s, gline('exon', s, e)))
            for _, l in lines:
                gtf.append(l)
    with open(f'{outdir}/annotation.gtf', 'w') as fh:
        fh.write('\n'.join(gtf) + '\n')
    with open(f'{outdir}/proteome.fasta', 'w') as fh:
        for h, s in prot:
            fh.write(f'>{h}\n{s}\n')


class Var:
    """Small variant in gene coordinates (gene orientation). VCF-like anchor for indels."""
    def __init__(self, gene, tx, gstart, ref, alt):
        self.gene, self.tx, self.gstart, self.ref, self.alt = gene, tx, gstart, ref, alt
        self.gend = gstart + len(ref)
        if len(ref) == 1 and len(alt) == 1:
            self.kind = 'SNV'
        elif len(ref) == 1 or len(alt) == 1:
            self.kind = 'INDEL'
        else:
            self.kind = 'MNV'
        self.id = f'{self.kind}-{gstart + 1}-{ref}-{alt}'

    def gvf_line(self):
        info = f'TRANSCRIPT_ID={self.tx.id};GENE_SYMBOL={self.gene.name};GENOMIC_POSITION=chr1:1-2'
        return '\t'.join([self.gene.id, str(self.gstart + 1), self.id, self.ref, self.alt, '.', '.', info])


GVF_HEAD = """##fileformat=VCFv4.2
##mopepgen_version=1.4.6-rc4
##parser=parseVEP
##reference_index=
##genome_fasta=
##annotation_gtf=
##source={source}
##CHROM=<Description="Gene ID">
##INFO=<ID=TRANSCRIPT_ID,Number=1,Type=String,Description="Transcript ID">
##INFO=<ID=GENE_SYMBOL,Number=1,Type=String,Description="Gene Symbol">
##INFO=<ID=GENOMIC_POSITION,Number=1,Type=String,Description="Genomic Position">
#CHROM\tPOS\tID\tREF\tALT\tQUAL\tFILTER\tINFO
"""


def make_small_variants(rng, ref, tx, n, max_indel=4, snv_p=0.6, cluster=True):
    gene = tx.gene
    gs = ref.gene_seq(gene)
    out = {}
    L = tx.tx_len()
    centre = rng.randrange(L)
    tries = 0
    while len(out) < n and tries < 200:
        tries += 1
        if cluster and rng.random() < 0.7:
            t = int(rng.gauss(centre, 8))
        else:
            t = rng.randrange(L)
        if not 0 <= t < L:
            continue
        g = tx.tx2gene(t)
        r = rng.random()
        if r < snv_p:
            refb = gs[g]
            alt = rng.choice([b for b in 'ACGT' if b != refb])
            v = Var(gene, tx, g, refb, alt)
        elif r < snv_p + (1 - snv_p) / 2:
            k = rng.randint(1, max_indel)
            v = Var(gene, tx, g, gs[g], gs[g] + ''.join(rng.choice('ACGT') for _ in range(k)))
        else:
            k = rng.randint(1, max_indel)
            if g + k + 1 > len(gs):
                continue
            v = Var(gene, tx, g, gs[g:g + k + 1], gs[g])
        out[v.id] = v
    return sorted(out.values(), key=lambda v: (v.gstart, v.gend, v.alt))


def write_gvf(path, variants, source='gSNP'):
    with open(path, 'w') as fh:
        fh.write(GVF_HEAD.format(source=source))
        for v in variants:
            fh.write(v.gvf_line() + '\n')
