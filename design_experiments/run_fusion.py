"""Prototype: fusion (exonic breakpoints, no extra variants) vs definitional oracle."""
import sys, os, random, io, contextlib, logging, json, shutil, re, traceback
sys.path.insert(0, os.path.dirname(__file__))
import refgen, oracle as orc, run_cv

FUSION_HEAD = refgen.GVF_HEAD.replace('parseVEP', 'parseSTARFusion')

def fusion_line(donor_tx, dpos_gene, acc_tx, apos_gene, ref_base):
    dg, ag = donor_tx.gene, acc_tx.gene
    fid = f'FUSION-{donor_tx.id}:{dpos_gene}-{acc_tx.id}:{apos_gene}'
    info = (f'TRANSCRIPT_ID={donor_tx.id};GENE_SYMBOL={dg.name};GENOMIC_POSITION=chr1:1:1;'
            f'ACCEPTER_GENE_ID={ag.id};ACCEPTER_TRANSCRIPT_ID={acc_tx.id};ACCEPTER_SYMBOL={ag.name};'
            f'ACCEPTER_POSITION={apos_gene + 1};ACCEPTER_GENOMIC_POSITION=chr1:1:1')
    return '\t'.join([dg.id, str(dpos_gene + 1), fid, ref_base, '<FUSION>', '.', '.', info]), fid

def one_case(seed, root):
    from moPepGen.cli.call_variant_peptide import call_variant_peptide
    rng = random.Random(seed)
    wd = os.path.join(root, f'f{seed}'); shutil.rmtree(wd, ignore_errors=True); os.makedirs(wd)
    ref = refgen.make_reference(rng, n_genes=2)
    refgen.write_reference(ref, wd)
    d, a = ref.genes[0].txs[0], ref.genes[1].txs[0]
    if rng.random() < 0.5:
        d, a = a, d
    dseq, aseq = d.seq(ref.gene_seq(d.gene)), a.seq(ref.gene_seq(a.gene))
    # donor: junction j in tx coords = number of donor bases kept (>=1); acceptor first kept base k
    j = rng.randint(1, len(dseq) - 1)
    k = rng.randint(0, len(aseq) - 1)
    dpos_gene = d.tx2gene(j - 1) + 1          # gene coord of first excluded base
    # to keep the breakpoint exonic for the tool, the first excluded base must map back: fine if j-1 exonic
    apos_gene = a.tx2gene(k)
    line, fid = fusion_line(d, dpos_gene, a, apos_gene, ref.gene_seq(d.gene)[min(dpos_gene, len(ref.gene_seq(d.gene)) - 1)])
    with open(wd + '/f.gvf', 'w') as fh:
        fh.write(FUSION_HEAD.format(source='Fusion') + line + '\n')
    args = run_cv.cv_args(wd, [wd + '/f.gvf'])
    res = {'seed': seed, 'donor_coding': d.coding, 'acc_coding': a.coding, 'j': j, 'k': k,
           'dcds': d.cds, 'strands': (d.gene.strand, a.gene.strand), 'nf': (d.cds_start_nf, d.mrna_end_nf, a.mrna_end_nf)}
    try:
        with contextlib.redirect_stdout(io.StringIO()):
            call_variant_peptide(args)
        fa = run_cv.read_fasta(args.output_path)
    except Exception as e:
        res['error'] = repr(e); res['tb'] = traceback.format_exc(); return res
    got = set(fa.values())
    canon = run_cv.canonical_pool(ref)
    fused = dseq[:j] + aseq[k:]
    # donor reference peptides
    pref = orc.peptides_of(d, dseq, [], 2, must=False)
    sec = [c for c in d.sec if c + 3 <= j]
    must, may = set(), set()
    start_index = (d.cds[0] if d.coding else 0) + 3
    considered = j >= start_index
    if d.coding:
        starts_must = starts_may = [d.cds[0]]
    else:
        atg = [m.start() for m in re.finditer('(?=ATG)', fused)]
        starts_must = [s for s in atg if s + 3 <= j]
        starts_may = [s for s in atg if s <= j + 2]
    for st in starts_may:
        aa, hit = orc.protein_from(fused, st, sec)
        for p, is_last in orc.digest(aa, 2, True):
            if orc.ok_peptide(p):
                may.add(p)
                if considered and st in starts_must and not (is_last and not hit and a.mrna_end_nf) \
                        and not (d.coding and d.cds_start_nf and False):
                    must.add(p)
    must -= pref | canon
    res.update(n_out=len(got), n_must=len(must), missing=sorted(must - got), spurious=sorted(got - may),
               in_deny=sorted(got & (pref | canon)))
    bad_hdr = [h for h in fa if not all(e.startswith('FUSION-') for e in h.split(' '))]
    res['bad_hdr'] = bad_hdr[:3]
    if not (res['missing'] or res['spurious'] or res['in_deny'] or bad_hdr):
        shutil.rmtree(wd, ignore_errors=True)
    return res

if __name__ == '__main__':
    logging.disable(logging.CRITICAL)
    import warnings; warnings.simplefilter('ignore')
    lo, hi, root = int(sys.argv[1]), int(sys.argv[2]), sys.argv[3]
    st = dict(n=0, err=0, missing=0, spurious=0, deny=0, nontrivial=0, hdr=0)
    for s in range(lo, hi):
        r = one_case(s, root); st['n'] += 1
        if 'error' in r:
            st['err'] += 1; print(json.dumps({k: v for k, v in r.items() if k != 'tb'})); continue
        st['nontrivial'] += r['n_must'] > 0
        st['missing'] += bool(r['missing']); st['spurious'] += bool(r['spurious']); st['deny'] += bool(r['in_deny']); st['hdr'] += bool(r['bad_hdr'])
        if r['missing'] or r['spurious'] or r['in_deny'] or r['bad_hdr']:
            print(json.dumps(r))
    print('STATS', json.dumps(st))
