"""Biopython>=1.85 compatibility shim (scratch)."""
import os
if os.environ.get('MPG_BIOCOMPAT', '1') == '1':
    try:
        import Bio.SeqIO  # make sure format modules bind the real base class first
        import Bio.SeqIO.Interfaces as _I
        from Bio.SeqRecord import SeqRecord as _SR

        class _LegacySequenceIterator:
            """SequenceIterator with the pre-1.85 API: subclass defines parse(handle)."""
            def __init__(self, source, alphabet=None, mode='t', fmt=None):
                if alphabet is not None:
                    raise ValueError('alphabet no longer supported')
                try:
                    self.stream = open(source, 'r' + mode)
                    self.should_close_stream = True
                except TypeError:
                    self.stream = source
                    self.should_close_stream = False
                try:
                    self.records = self.parse(self.stream)
                except Exception:
                    if self.should_close_stream:
                        self.stream.close()
                    raise
            def __next__(self):
                try:
                    return next(self.records)
                except Exception:
                    if self.should_close_stream:
                        self.stream.close()
                    raise
            def __iter__(self):
                return self
            def parse(self, handle):
                raise NotImplementedError
        _I.SequenceIterator = _LegacySequenceIterator

        _orig = _SR._from_validated.__func__
        def _from_validated(cls, seq, id="<unknown id>", name="<unknown name>",
                description="<unknown description>", dbxrefs=None, features=None,
                annotations=None, letter_annotations=None):
            if cls is _SR:
                return _orig(cls, seq, id, name, description, dbxrefs, features,
                    annotations, letter_annotations)
            inst = _orig(_SR, seq, id, name, description, dbxrefs, features,
                annotations, letter_annotations)
            inst.__class__ = cls
            return inst
        _SR._from_validated = classmethod(_from_validated)
        from Bio.Seq import Seq as _Seq
        _orig_init = _SR.__init__
        def _init(self, seq=None, *args, **kwargs):
            if isinstance(seq, str):
                seq = _Seq(seq)
            _orig_init(self, seq, *args, **kwargs)
        _SR.__init__ = _init
        _orig_add = _SR.__add__
        def _add(self, other):
            if not isinstance(other, _SR):
                if self._seq is None:
                    raise ValueError("Left operand seq=None, can't add")
                return _SR(self._seq + other, id=self.id, name=self.name,
                    description=self.description, features=self.features[:],
                    annotations=self.annotations.copy(), dbxrefs=self.dbxrefs[:])
            return _orig_add(self, other)
        _SR.__add__ = _add
    except ImportError:
        pass

# ---- experiment: source-free failpoints via post-import hook ----
if os.environ.get('MPG_FAIL'):
    import sys, importlib.abc, importlib.util
    _TARGET = 'moPepGen.cli.call_variant_peptide'
    class _Finder(importlib.abc.MetaPathFinder):
        def find_spec(self, fullname, path, target=None):
            if fullname != _TARGET:
                return None
            sys.meta_path.remove(self)
            try:
                spec = importlib.util.find_spec(fullname)
            finally:
                sys.meta_path.insert(0, self)
            if spec is None:
                return None
            loader = spec.loader
            orig_exec = loader.exec_module
            def exec_module(module):
                orig_exec(module)
                fail = set(os.environ['MPG_FAIL'].split(','))
                orig_main = module.call_peptide_main
                def call_peptide_main(*a, **kw):
                    tx_id = kw.get('tx_id', a[0] if a else None)
                    if 'main:' + str(tx_id) in fail:
                        raise RuntimeError('VERIF injected failure main:' + str(tx_id))
                    return orig_main(*a, **kw)
                module.call_peptide_main = call_peptide_main
            loader.exec_module = exec_module
            return spec
    sys.meta_path.insert(0, _Finder())
