import sys, os, random, json, itertools, logging, glob, collections
sys.path.insert(0, os.path.dirname(__file__))
import refgen, oracle as orc, run_cv
logging.disable(logging.CRITICAL)
cnt = collections.Counter(); ex = {}
for f in glob.glob('/tmp/scratch/log*.txt'):
    for line in open(f):
        if not line.startswith('{'): continue
        r = json.loads(line)
        if not r.get('hdr_bad'): continue
        seed = r['seed']
        rng = random.Random(seed)
        ref = refgen.make_reference(rng, n_genes=1)
        tx = ref.genes[0].txs[0]
        n = rng.randint(1, 6)
        vs = refgen.make_small_variants(rng, ref, tx, n)
        byid = {v.id: v for v in vs}
        gs = ref.gene_seq(tx.gene); s = tx.seq(gs)
        allm = [(v, t) for v, t in orc.tx_variants(tx, vs) if t]
        for kind, ent, pep in r['hdr_bad']:
            fld = ent.split('|')
            ids = []
            for x in fld[1:-1]:
                if not x.startswith('ORF') and x not in ids: ids.append(x)
            named = [m for m in allm if m[0].id in ids]
            others = [m for m in allm if m[0].id not in ids]
            # find minimal edit: drop set D from named, add set A from others
            best = None
            for tot in range(0, len(allm) + 1):
                for nd in range(0, min(tot, len(named)) + 1):
                    na = tot - nd
                    if na > len(others): continue
                    for D in itertools.combinations(named, nd):
                        for A in itertools.combinations(others, na):
                            comb = sorted([m for m in named if m not in D] + list(A), key=lambda x: (x[1][0], x[1][1]))
                            if not orc.loosely_compatible(comb): continue
                            if pep in orc.peptides_of(tx, s, comb, 2, False):
                                best = (D, A, comb); break
                        if best: break
                    if best: break
                if best: break
            if not best:
                cls = 'no-repair'
            else:
                D, A, comb = best
                # locate peptide in haplotype to classify A relative to it
                hap, pmap = orc.apply_haplotype(s, [t for _, t in comb])
                desc = []
                for v, t in A:
                    fs = (len(t[3]) - len(t[2])) % 3 != 0
                    desc.append(('add', 'FS' if fs else ('SNV' if len(t[2]) == len(t[3]) == 1 else 'inframe-indel')))
                for v, t in D:
                    same_pos = any(o[1][0] == t[0] and o[1][1] == t[1] for o in named if o is not (v, t) and o[0].id != v.id)
                    desc.append(('drop', 'same-pos-allele' if same_pos else 'other'))
                cls = str(sorted(desc)) + (' dup-id' if len(ids) != len([x for x in fld[1:-1] if not x.startswith('ORF')]) else '')
            cnt[(kind, cls, 'coding' if tx.coding else 'noncoding')] += 1
            ex.setdefault((kind, cls), (seed, ent, pep))
for k, v in cnt.most_common(): print(v, k, ex[(k[0], k[1])])
