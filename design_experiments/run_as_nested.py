"""Prototype: AS Insertion/Substitution carrying nested intronic small variants."""
import sys, os, random, io, contextlib, logging, json, shutil, itertools, traceback
sys.path.insert(0, os.path.dirname(__file__))
import refgen, oracle as orc, run_cv, run_as

def one_case(seed, root):
    from moPepGen.cli.call_variant_peptide import call_variant_peptide
    rng = random.Random(seed)
    wd = os.path.join(root, f'n{seed}'); shutil.rmtree(wd, ignore_errors=True); os.makedirs(wd)
    ref = refgen.make_reference(rng, n_genes=1, min_exons=2, max_exons=4, intron_len=(30, 90))
    refgen.write_reference(ref, wd)
    tx = ref.genes[0].txs[0]; gene = tx.gene
    gs = ref.gene_seq(gene); tseq = tx.seq(gs)
    asv = None
    for _ in range(20):
        a = run_as.make_as(rng, ref, tx)
        if a and a.kind in ('Insertion', 'Substitution'):
            asv = a; break
    if not asv: shutil.rmtree(wd); return None
    # donor coords from id
    parts = asv.id.split('_')[1].split('-')
    ds, de = (int(parts[1]), int(parts[2])) if asv.kind == 'Insertion' else (int(parts[2]), int(parts[3]))
    if de - ds < 8: shutil.rmtree(wd); return None
    nested = {}
    for _ in range(rng.randint(1, 3)):
        g = rng.randint(ds + 1, de - 3)
        r = rng.random()
        if r < .5:
            v = refgen.Var(gene, tx, g, gs[g], rng.choice([b for b in 'ACGT' if b != gs[g]]))
        elif r < .75:
            v = refgen.Var(gene, tx, g, gs[g], gs[g] + ''.join(rng.choice('ACGT') for _ in range(rng.randint(1, 3))))
        else:
            k = rng.randint(1, 2)
            if g + k + 1 >= de - 1: continue
            v = refgen.Var(gene, tx, g, gs[g:g + k + 1], gs[g])
        nested[v.id] = v
    nested = sorted(nested.values(), key=lambda v: v.gstart)
    if not nested: shutil.rmtree(wd); return None
    refgen.write_gvf(wd + '/v.gvf', nested)
    with open(wd + '/as.gvf', 'w') as fh:
        fh.write(run_as.AS_HEAD.format(source='AltSplice') + asv.line + '\n')
    args = run_cv.cv_args(wd, [wd + '/v.gvf', wd + '/as.gvf'])
    res = {'seed': seed, 'coding': tx.coding, 'kind': asv.kind, 'tv': asv.tv[:2], 'cds': tx.cds, 'donor': (ds, de),
           'nested': [v.id for v in nested], 'nf': (tx.cds_start_nf, tx.mrna_end_nf)}
    try:
        with contextlib.redirect_stdout(io.StringIO()):
            call_variant_peptide(args)
        fa = run_cv.read_fasta(args.output_path)
    except Exception as e:
        res['error'] = repr(e); return res
    got = set(fa.values())
    canon = run_cv.canonical_pool(ref)
    pref = orc.peptides_of(tx, tseq, [], 2, must=False)
    deny = pref | canon
    donor = gs[ds:de]
    ts, te, r0, alt0 = asv.tv
    prefix = alt0[:len(alt0) - len(donor)]
    start_index = (tx.cds[0] if tx.coding else 0) + 3
    usable = ts >= start_index and not (tx.coding and tx.mrna_end_nf and ts < tx.cds[1] and te > tx.cds[1] - 3)
    must, may = set(), set()
    class K: kind = 'AS'; id = asv.id
    for k in range(0, len(nested) + 1):
        for comb in itertools.combinations(nested, k):
            edits = [(v.gstart - ds, v.gend - ds, v.ref, v.alt) for v in comb]
            if any(a[1] > b[0] for a, b in zip(edits, edits[1:])): continue
            strict = all(a[1] < b[0] for a, b in zip(edits, edits[1:]))
            d2, _ = orc.apply_haplotype(donor, edits)
            tv = (ts, te, r0, prefix + d2)
            P = orc.peptides_of(tx, tseq, [(K, tv)], 2, must=False)
            may |= P
            if usable and strict:
                must |= orc.peptides_of(tx, tseq, [(K, tv)], 2, must=True)
    must -= deny
    res.update(n_out=len(got), n_must=len(must), missing=sorted(must - got), spurious=sorted(got - may), in_deny=sorted(got & deny))
    if not (res['missing'] or res['spurious'] or res['in_deny']):
        shutil.rmtree(wd, ignore_errors=True)
    return res

if __name__ == '__main__':
    logging.disable(logging.CRITICAL)
    import warnings; warnings.simplefilter('ignore')
    lo, hi, root = int(sys.argv[1]), int(sys.argv[2]), sys.argv[3]
    st = dict(n=0, err=0, missing=0, spurious=0, deny=0, nontrivial=0, skipped=0)
    for s in range(lo, hi):
        r = one_case(s, root)
        if r is None: st['skipped'] += 1; continue
        st['n'] += 1
        if 'error' in r:
            st['err'] += 1; print(json.dumps(r)); continue
        st['nontrivial'] += r['n_must'] > 0
        st['missing'] += bool(r['missing']); st['spurious'] += bool(r['spurious']); st['deny'] += bool(r['in_deny'])
        if r['missing'] or r['spurious'] or r['in_deny']:
            print(json.dumps(r))
    print('STATS', json.dumps(st))
