"""Prototype: run callVariant in-process on generated inputs and compare to oracle."""
import argparse
import io
import logging
import os
import random
import shutil
import sys
import traceback
import contextlib
from pathlib import Path

sys.path.insert(0, os.path.dirname(__file__))
import refgen
import oracle as orc


def cv_args(workdir, gvfs, **kw):
    a = argparse.Namespace()
    a.index_dir = None
    a.command = 'callVariant'
    a.input_path = [Path(g) for g in gvfs]
    a.genome_fasta = Path(workdir) / 'genome.fasta'
    a.annotation_gtf = Path(workdir) / 'annotation.gtf'
    a.proteome_fasta = Path(workdir) / 'proteome.fasta'
    a.reference_source = None
    a.output_path = Path(workdir) / 'out.fasta'
    a.graph_output_dir = None
    a.quiet = True
    a.backsplicing_only = False
    a.max_adjacent_as_mnv = 2
    a.selenocysteine_termination = False
    a.w2f_reassignment = False
    a.cleavage_rule = 'trypsin'
    a.cleavage_exception = None
    a.miscleavage = 2
    a.min_mw = 500.
    a.min_length = 7
    a.max_length = 25
    a.threads = 1
    a.max_variants_per_node = (-1,)
    a.additional_variants_per_misc = (-1,)
    a.min_nodes_to_collapse = 30
    a.naa_to_collapse = 5
    a.noncanonical_transcripts = False
    a.invalid_protein_as_noncoding = False
    a.debug_level = 1
    a.timeout_seconds = 300
    a.coding_novel_orf = False
    a.skip_failed = False
    for k, v in kw.items():
        setattr(a, k, v)
    return a


def read_fasta(path):
    out = {}
    h = None
    with open(path) as fh:
        for line in fh:
            line = line.rstrip('\n')
            if line.startswith('>'):
                h = line[1:]
                out[h] = ''
            else:
                out[h] += line
    return out


def canonical_pool(ref, misc=2):
    pool = set()
    for gene in ref.genes:
        gs = ref.gene_seq(gene)
        for tx in gene.txs:
            if not tx.coding:
                continue
            s = tx.seq(gs)
            aa = refgen.translate(s[tx.cds[0]:tx.cds[1]], [c - tx.cds[0] for c in tx.sec])
            i = aa.find('*')
            if i > -1:
                aa = aa[:i]
            for p, _ in orc.digest(aa, misc, nterm_m=not tx.cds_start_nf):
                if orc.ok_peptide(p):
                    pool.add(p)
                    pool.add(p.replace('I', 'L'))
    return pool


def one_case(seed, workroot, keep=False, **gen):
    from moPepGen.cli.call_variant_peptide import call_variant_peptide
    rng = random.Random(seed)
    wd = os.path.join(workroot, f'c{seed}')
    shutil.rmtree(wd, ignore_errors=True)
    os.makedirs(wd)
    ref = refgen.make_reference(rng, n_genes=1)
    refgen.write_reference(ref, wd)
    tx = ref.genes[0].txs[0]
    n = rng.randint(1, gen.get('max_var', 6))
    variants = refgen.make_small_variants(rng, ref, tx, n, snv_p=gen.get('snv_p', 0.6))
    refgen.write_gvf(os.path.join(wd, 'v.gvf'), variants)
    args = cv_args(wd, [os.path.join(wd, 'v.gvf')])
    res = {'seed': seed, 'coding': tx.coding, 'strand': tx.gene.strand, 'nvar': len(variants),
           'nf': (tx.cds_start_nf, tx.mrna_end_nf), 'sec': len(tx.sec)}
    try:
        with contextlib.redirect_stdout(io.StringIO()):
            call_variant_peptide(args)
        got = set(read_fasta(args.output_path).values())
    except Exception as e:   # noqa
        res['error'] = ''.join(traceback.format_exception_only(type(e), e)).strip()
        res['tb'] = traceback.format_exc()
        return res
    canon = canonical_pool(ref)
    must, may, deny, nh = orc.oracle(ref, tx, variants, canon)
    res['n_out'] = len(got)
    res['n_must'] = len(must)
    res['n_hap'] = nh
    res['missing'] = sorted(must - got)
    res['spurious'] = sorted(got - may)
    res['in_deny'] = sorted(got & deny)
    # header truthfulness
    bad = []
    byid = {v.id: v for v in variants}
    gs = ref.gene_seq(tx.gene)
    tx_seq = tx.seq(gs)
    seen = set()
    nent = 0
    for hdr, pep in read_fasta(args.output_path).items():
        for ent in hdr.split(' '):
            nent += 1
            if ent in seen:
                bad.append(('dup', ent, pep))
            seen.add(ent)
            f = ent.split('|')
            if f[0] != tx.id:
                bad.append(('backbone', ent, pep)); continue
            ids = [x for x in f[1:-1] if not x.startswith('ORF')]
            if any(i not in byid for i in ids):
                bad.append(('unknown', ent, pep)); continue
            mp = [(v, t) for v, t in orc.tx_variants(tx, [byid[i] for i in ids])]
            if any(t is None for _, t in mp):
                bad.append(('unmappable', ent, pep)); continue
            mp.sort(key=lambda x: (x[1][0], x[1][1]))
            if not orc.loosely_compatible(mp):
                bad.append(('incompatible', ent, pep)); continue
            P = orc.peptides_of(tx, tx_seq, mp, 2, must=False)
            if pep not in P:
                bad.append(('not_witness', ent, pep))
    res['hdr_bad'] = bad
    res['n_ent'] = nent
    if not keep and not res['missing'] and not res['spurious'] and not res['in_deny'] and not res['hdr_bad']:
        shutil.rmtree(wd, ignore_errors=True)
    return res


if __name__ == '__main__':
    logging.disable(logging.CRITICAL)
    import warnings
    warnings.simplefilter('ignore')
    lo, hi = int(sys.argv[1]), int(sys.argv[2])
    root = sys.argv[3]
    import json
    stats = {'n': 0, 'err': 0, 'missing': 0, 'spurious': 0, 'deny': 0, 'nontrivial': 0, 'hdr': 0, 'ent': 0}
    for seed in range(lo, hi):
        r = one_case(seed, root)
        stats['n'] += 1
        if 'error' in r:
            stats['err'] += 1
            print(json.dumps({k: r[k] for k in r if k != 'tb'}))
            continue
        if r['n_must'] > 0:
            stats['nontrivial'] += 1
        if r['missing']:
            stats['missing'] += 1
        if r['spurious']:
            stats['spurious'] += 1
        if r['in_deny']:
            stats['deny'] += 1
        stats['ent'] += r['n_ent']
        if r['hdr_bad']:
            stats['hdr'] += 1
        if r['missing'] or r['spurious'] or r['in_deny'] or r['hdr_bad']:
            print(json.dumps(r))
    print('STATS', json.dumps(stats))
