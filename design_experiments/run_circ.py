"""Prototype: circRNA (exon circles, no extra variants) vs definitional oracle."""
import sys, os, random, io, contextlib, logging, json, shutil, re, traceback
sys.path.insert(0, os.path.dirname(__file__))
import refgen, oracle as orc, run_cv

CIRC_HEAD = refgen.GVF_HEAD.replace('parseVEP', 'parseCIRCexplorer')

def one_case(seed, root):
    from moPepGen.cli.call_variant_peptide import call_variant_peptide
    rng = random.Random(seed)
    wd = os.path.join(root, f'c{seed}'); shutil.rmtree(wd, ignore_errors=True); os.makedirs(wd)
    ref = refgen.make_reference(rng, n_genes=1, min_exons=2, max_exons=5, exon_len=(12, 90))
    refgen.write_reference(ref, wd)
    tx = ref.genes[0].txs[0]
    gs = ref.gene_seq(tx.gene)
    n = rng.randint(1, len(tx.exons))
    i0 = rng.randint(0, len(tx.exons) - n)
    frags = tx.exons[i0:i0 + n]
    start = frags[0][0]
    cid = f'CIRC-{tx.id}-{start}:{frags[-1][1]}'
    info = (f"OFFSET={','.join(str(s - start) for s, e in frags)};LENGTH={','.join(str(e - s) for s, e in frags)};"
            f"INTRON=;TRANSCRIPT_ID={tx.id};GENE_SYMBOL={tx.gene.name};GENOMIC_POSITION=chr1:1:2")
    with open(wd + '/c.gvf', 'w') as fh:
        fh.write(CIRC_HEAD.format(source='circRNA'))
        fh.write('\t'.join([tx.gene.id, str(start), cid, '.', '.', '.', '.', info]) + '\n')
    args = run_cv.cv_args(wd, [wd + '/c.gvf'])
    res = {'seed': seed, 'coding': tx.coding, 'strand': tx.gene.strand, 'nfrag': n}
    try:
        with contextlib.redirect_stdout(io.StringIO()):
            call_variant_peptide(args)
        fa = run_cv.read_fasta(args.output_path)
    except Exception as e:
        res['error'] = repr(e); res['tb'] = traceback.format_exc(); return res
    got = set(fa.values())
    canon = run_cv.canonical_pool(ref)
    tseq = tx.seq(gs)
    pref = orc.peptides_of(tx, tseq, [], 2, must=False)
    circ = ''.join(gs[s:e] for s, e in frags)
    L = len(circ)
    res['L'] = L
    big = circ * 4
    must, may = set(), set()
    for st in [m.start() for m in re.finditer('(?=ATG)', big)]:
        aa, hit = orc.protein_from(big, st, [])
        first_copy = st < L
        for p, is_last in orc.digest(aa, 2, True):
            if not orc.ok_peptide(p):
                continue
            may.add(p)
            if first_copy and not (is_last and not hit):
                must.add(p)
    must -= pref | canon
    res.update(n_out=len(got), n_must=len(must), missing=sorted(must - got), spurious=sorted(got - may),
               in_deny=sorted(got & (pref | canon)))
    if not (res['missing'] or res['spurious'] or res['in_deny']):
        shutil.rmtree(wd, ignore_errors=True)
    return res

if __name__ == '__main__':
    logging.disable(logging.CRITICAL)
    import warnings; warnings.simplefilter('ignore')
    lo, hi, root = int(sys.argv[1]), int(sys.argv[2]), sys.argv[3]
    st = dict(n=0, err=0, missing=0, spurious=0, deny=0, nontrivial=0)
    for s in range(lo, hi):
        r = one_case(s, root); st['n'] += 1
        if 'error' in r:
            st['err'] += 1; print(json.dumps({k: v for k, v in r.items() if k != 'tb'})); continue
        st['nontrivial'] += r['n_must'] > 0
        st['missing'] += bool(r['missing']); st['spurious'] += bool(r['spurious']); st['deny'] += bool(r['in_deny'])
        if r['missing'] or r['spurious'] or r['in_deny']:
            print(json.dumps(r))
    print('STATS', json.dumps(st))
