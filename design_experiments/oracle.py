"""Prototype definitional oracle for callVariant on linear transcripts with small variants."""
import itertools
import re
from Bio.SeqUtils import molecular_weight
from refgen import translate

TRYPSIN = re.compile(r'([KR](?=[^P]))|((?<=W)K(?=P))|((?<=M)R(?=P))')


def cleave_sites(aa):
    return [m.end() for m in TRYPSIN.finditer(aa)]


def digest(aa, misc, nterm_m=True):
    """All peptides of protein aa with <= misc missed cleavages. Returns set."""
    sites = [0] + [s for s in cleave_sites(aa) if 0 < s < len(aa)] + [len(aa)]
    sites = sorted(set(sites))
    out = set()
    for i in range(len(sites) - 1):
        for j in range(i + 1, min(i + misc + 2, len(sites))):
            p = aa[sites[i]:sites[j]]
            out.add((p, sites[j] == len(aa)))
            if i == 0 and nterm_m and p.startswith('M'):
                out.add((p[1:], sites[j] == len(aa)))
    return out


def ok_peptide(p, min_len=7, max_len=25, min_mw=500.):
    if not (min_len <= len(p) <= max_len):
        return False
    if 'X' in p or '*' in p:
        return False
    return molecular_weight(p, 'protein') >= min_mw


def apply_haplotype(tx_seq, variants):
    """variants: list of (tstart, tend, ref, alt) sorted, non-overlapping. Returns new seq and
    a position map function for tx position -> hap position (for positions not inside variants)."""
    out = []
    cur = 0
    shifts = []   # (tend, delta)
    delta = 0
    for ts, te, ref, alt in variants:
        assert tx_seq[ts:te] == ref, (tx_seq[ts:te], ref)
        out.append(tx_seq[cur:ts])
        out.append(alt)
        cur = te
        delta += len(alt) - len(ref)
        shifts.append((ts, te, delta))
    out.append(tx_seq[cur:])

    def pmap(p):
        d = 0
        for ts, te, dl in shifts:
            if p >= te:
                d = dl
            elif p >= ts:
                return None
        return p + d
    return ''.join(out), pmap


def protein_from(seq, start, sec_hap_positions):
    """Translate from start until first stop (Sec as U). returns (aa, hit_stop)"""
    sub = seq[start:]
    aa = translate(sub, [p - start for p in sec_hap_positions if p >= start])
    i = aa.find('*')
    if i == -1:
        return aa, False
    return aa[:i], True


def tx_variants(tx, variants):
    """Map gene-coordinate variants to transcript coords; classify."""
    res = []
    for v in variants:
        ts = tx.gene2tx(v.gstart)
        te_last = tx.gene2tx(v.gend - 1)
        if ts is None or te_last is None:
            res.append((v, None))     # intronic or spanning
            continue
        if te_last - ts != v.gend - 1 - v.gstart:
            res.append((v, None))     # spans an intron
            continue
        res.append((v, (ts, te_last + 1, v.ref, v.alt)))
    return res


def usable(tx, tv, kind):
    """Is the variant considered by the caller (MUST semantics)."""
    ts, te, ref, alt = tv
    start_index = (tx.cds[0] if tx.coding else 0) + 3
    is_indel = len(ref) == 1 or len(alt) == 1
    if ts < start_index:
        if not (ts == start_index - 1 and is_indel and len(ref) != len(alt)):
            return False
    if tx.coding and tx.mrna_end_nf:
        end = tx.cds[1]
        if ts < end and te > end - 3:
            return False
    return True


def compatible(tvs, max_adjacent=2):
    """MUST-compatible: gaps >=1 between variants, or adjacent runs of same class <= max_adjacent."""
    run = 1
    for a, b in zip(tvs, tvs[1:]):
        if a[1][1] > b[1][0]:
            return False
        if a[1][1] == b[1][0]:
            ca = 'S' if a[0].kind == 'SNV' else 'I'
            cb = 'S' if b[0].kind == 'SNV' else 'I'
            if ca != cb:
                return False
            run += 1
            if run > max_adjacent:
                return False
        else:
            run = 1
    return True


def loosely_compatible(tvs):
    for a, b in zip(tvs, tvs[1:]):
        if a[1][1] > b[1][0]:
            return False
    return True


def peptides_of(tx, tx_seq, tvs, misc, must):
    """Set of peptides for one haplotype. must=True: conservative; False: liberal."""
    hap, pmap = apply_haplotype(tx_seq, [t for _, t in tvs])
    sec = []
    for c in tx.sec:
        ps = [pmap(c + k) for k in range(3)]
        if None in ps or ps[2] - ps[0] != 2:
            continue
        sec.append(ps[0])
    out = set()
    if tx.coding:
        starts = [tx.cds[0]]
    else:
        starts = [m.start() for m in re.finditer('(?=ATG)', hap)]
    for st in starts:
        aa, hit_stop = protein_from(hap, st, sec)
        if not aa:
            continue
        nterm_m = True
        if must and tx.coding and tx.cds_start_nf:
            nterm_m = False
        for p, is_last in digest(aa, misc, nterm_m=nterm_m):
            if must and is_last and not hit_stop and tx.coding and tx.mrna_end_nf:
                continue
            if ok_peptide(p):
                out.add(p)
        if not must:
            # liberal: also Sec-as-stop not considered here (flag off); nothing more
            pass
    return out


def oracle(ref, tx, variants, canonical, misc=2, max_hap=2 ** 12):
    gs = ref.gene_seq(tx.gene)
    tx_seq = tx.seq(gs)
    mapped = [(v, t) for v, t in tx_variants(tx, variants) if t is not None]
    mapped.sort(key=lambda x: (x[1][0], x[1][1]))
    refpep = peptides_of(tx, tx_seq, [], misc, must=False)
    deny = refpep | canonical
    must, may = set(), set()
    use = [m for m in mapped if usable(tx, m[1], m[0].kind)]
    n_h = 0
    for k in range(1, len(mapped) + 1):
        for comb in itertools.combinations(mapped, k):
            if not loosely_compatible(comb):
                continue
            n_h += 1
            if n_h > max_hap:
                raise RuntimeError('too many haplotypes')
            may |= peptides_of(tx, tx_seq, list(comb), misc, must=False)
            if all(c in use for c in comb) and compatible(comb):
                must |= peptides_of(tx, tx_seq, list(comb), misc, must=True)
    must -= deny
    return must, may, deny, n_h
