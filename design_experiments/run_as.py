"""Prototype: alternative splicing (Deletion / Insertion / Substitution) + small variants vs oracle."""
import sys, os, random, io, contextlib, logging, json, shutil, re, traceback, itertools
sys.path.insert(0, os.path.dirname(__file__))
import refgen, oracle as orc, run_cv

AS_HEAD = refgen.GVF_HEAD.replace('parseVEP', 'parseRMATS')

class ASVar:
    def __init__(self, kind, tx, tv, line, vid):
        self.kind = kind; self.tx = tx; self.tv = tv; self.line = line; self.id = vid

def make_as(rng, ref, tx):
    gene = tx.gene; gs = ref.gene_seq(gene); tseq = tx.seq(gs)
    kinds = ['Deletion']
    if len(tx.exons) >= 2:
        kinds += ['Insertion', 'Substitution']
    kind = rng.choice(kinds)
    base_info = f'TRANSCRIPT_ID={tx.id};GENE_SYMBOL={gene.name};GENOMIC_POSITION=chr1:1:2'
    if kind == 'Deletion':
        # delete whole exon (not first) or part of an exon
        i = rng.randrange(len(tx.exons))
        s, e = tx.exons[i]
        if rng.random() < 0.5 and i > 0:
            ds, de = s, e
        else:
            if e - s < 4: return None
            ds = rng.randint(s + 1, e - 2); de = rng.randint(ds + 1, e - 1) if rng.random() < .7 else e
        ts, te = tx.gene2tx(ds), tx.gene2tx(de - 1) + 1
        if ts == 0: return None
        vid = f'SE_{ds}-{de}'
        line = '\t'.join([gene.id, str(ds + 1), vid, gs[ds], '<DEL>', '.', '.', f'{base_info};START={ds + 1};END={de}'])
        return ASVar(kind, tx, (ts - 1, te, tseq[ts - 1:te], tseq[ts - 1]), line, vid)
    i = rng.randrange(len(tx.exons) - 1)
    intron_s, intron_e = tx.exons[i][1], tx.exons[i + 1][0]
    if intron_e - intron_s < 6: return None
    ds = rng.randint(intron_s, intron_e - 3); de = rng.randint(ds + 2, intron_e)
    if rng.random() < .3: ds, de = intron_s, intron_e
    donor = gs[ds:de]
    if kind == 'Insertion':
        anchor = tx.exons[i][1] - 1
        ta = tx.gene2tx(anchor)
        vid = f'RI_{anchor}-{ds}-{de}'
        line = '\t'.join([gene.id, str(anchor + 1), vid, gs[anchor], '<INS>', '.', '.',
            f'{base_info};DONOR_START={ds + 1};DONOR_END={de};DONOR_GENE_ID={gene.id}'])
        return ASVar(kind, tx, (ta, ta + 1, tseq[ta], tseq[ta] + donor), line, vid)
    # Substitution: replace exon i+1 or i (not first/last handled loosely) by donor
    j = rng.choice([i, i + 1])
    s, e = tx.exons[j]
    ts, te = tx.gene2tx(s), tx.gene2tx(e - 1) + 1
    vid = f'MXE_{s + 1}-{e}-{ds}-{de}'
    line = '\t'.join([gene.id, str(s + 1), vid, gs[s], '<SUB>', '.', '.',
        f'{base_info};START={s + 1};END={e};DONOR_START={ds + 1};DONOR_END={de};DONOR_GENE_ID={gene.id};COORDINATE=gene'])
    return ASVar(kind, tx, (ts, te, tseq[ts:te], donor), line, vid)

def one_case(seed, root):
    from moPepGen.cli.call_variant_peptide import call_variant_peptide
    rng = random.Random(seed)
    wd = os.path.join(root, f'a{seed}'); shutil.rmtree(wd, ignore_errors=True); os.makedirs(wd)
    ref = refgen.make_reference(rng, n_genes=1, min_exons=2, max_exons=5)
    refgen.write_reference(ref, wd)
    tx = ref.genes[0].txs[0]
    asv = make_as(rng, ref, tx)
    if asv is None:
        shutil.rmtree(wd); return None
    small = refgen.make_small_variants(rng, ref, tx, rng.randint(0, 3), cluster=False)
    refgen.write_gvf(wd + '/v.gvf', small)
    with open(wd + '/as.gvf', 'w') as fh:
        fh.write(AS_HEAD.format(source='AltSplice') + asv.line + '\n')
    args = run_cv.cv_args(wd, [wd + '/v.gvf', wd + '/as.gvf'])
    res = {'seed': seed, 'coding': tx.coding, 'kind': asv.kind, 'tv': asv.tv[:2], 'cds': tx.cds,
           'nf': (tx.cds_start_nf, tx.mrna_end_nf), 'nsmall': len(small), 'strand': tx.gene.strand}
    try:
        with contextlib.redirect_stdout(io.StringIO()):
            call_variant_peptide(args)
        fa = run_cv.read_fasta(args.output_path)
    except Exception as e:
        res['error'] = repr(e); res['tb'] = traceback.format_exc(); return res
    got = set(fa.values())
    canon = run_cv.canonical_pool(ref)
    gs = ref.gene_seq(tx.gene); tseq = tx.seq(gs)
    class K:  # adapter so oracle.compatible treats AS as its own class
        def __init__(s, kind, id): s.kind = kind; s.id = id
    mapped = [(v, t) for v, t in orc.tx_variants(tx, small) if t is not None]
    mapped.append((K('AS', asv.id), asv.tv))
    mapped.sort(key=lambda x: (x[1][0], x[1][1]))
    pref = orc.peptides_of(tx, tseq, [], 2, must=False)
    deny = pref | canon
    must, may = set(), set()
    def usable(m):
        if m[0].kind == 'AS':
            start_index = (tx.cds[0] if tx.coding else 0) + 3
            if m[1][0] < start_index: return False
            if tx.coding and tx.mrna_end_nf and m[1][0] < tx.cds[1] and m[1][1] > tx.cds[1] - 3: return False
            return True
        return orc.usable(tx, m[1], m[0].kind)
    def compat(comb):
        for a, b in zip(comb, comb[1:]):
            if a[1][1] > b[1][0]: return False
            if a[1][1] == b[1][0]:
                if 'AS' in (a[0].kind, b[0].kind): return False
        return orc.compatible([c for c in comb if c[0].kind != 'AS']) if len(comb) > 1 else True
    for k in range(1, len(mapped) + 1):
        for comb in itertools.combinations(mapped, k):
            if not orc.loosely_compatible(comb): continue
            may |= orc.peptides_of(tx, tseq, list(comb), 2, must=False)
            if all(usable(c) for c in comb) and compat(comb):
                must |= orc.peptides_of(tx, tseq, list(comb), 2, must=True)
    must -= deny
    res.update(n_out=len(got), n_must=len(must), missing=sorted(must - got), spurious=sorted(got - may),
               in_deny=sorted(got & deny))
    if not (res['missing'] or res['spurious'] or res['in_deny']):
        shutil.rmtree(wd, ignore_errors=True)
    return res

if __name__ == '__main__':
    logging.disable(logging.CRITICAL)
    import warnings; warnings.simplefilter('ignore')
    lo, hi, root = int(sys.argv[1]), int(sys.argv[2]), sys.argv[3]
    st = dict(n=0, err=0, missing=0, spurious=0, deny=0, nontrivial=0, skipped=0)
    for s in range(lo, hi):
        r = one_case(s, root)
        if r is None: st['skipped'] += 1; continue
        st['n'] += 1
        if 'error' in r:
            st['err'] += 1; print(json.dumps({k: v for k, v in r.items() if k != 'tb'})); continue
        st['nontrivial'] += r['n_must'] > 0
        st['missing'] += bool(r['missing']); st['spurious'] += bool(r['spurious']); st['deny'] += bool(r['in_deny'])
        if r['missing'] or r['spurious'] or r['in_deny']:
            print(json.dumps(r))
    print('STATS', json.dumps(st))
