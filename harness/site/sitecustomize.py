"""Loaded by every Python process of the verification harness (directory on PYTHONPATH).

Part 1: Biopython >= 1.85 compatibility shim (DESIGN.md section 2.1). Patches Biopython, not
        moPepGen, back to the API the repository was written against. Always on.
Part 2: external instrumentation of moPepGen.cli.call_variant_peptide, only when the guard
        MOPEPGEN_VERIF=1 is set (DESIGN.md section 2.3):
          MOPEPGEN_VERIF_FAIL=main:<tx_id>,fusion:<fusion id>,circ:<circ id>   source-free failpoints
          MOPEPGEN_VERIF_TIMEOUTS=<n>   first n attempts per transcript raise TimeoutError
          MOPEPGEN_VERIF_TRACE=<file>   append one JSON line per unit call (reach counters)
        Works in ppft worker processes too because they inherit the environment.
"""
import os

if os.environ.get('MOPEPGEN_VERIF_NOSHIM') != '1':
    try:
        import Bio.SeqIO  # make sure format modules bind the real base class first
        import Bio.SeqIO.Interfaces as _I
        from Bio.SeqRecord import SeqRecord as _SR
        from Bio.Seq import Seq as _Seq

        class _LegacySequenceIterator:
            """SequenceIterator with the pre-1.85 API: subclass defines parse(handle)."""
            def __init__(self, source, alphabet=None, mode='t', fmt=None):
                if alphabet is not None:
                    raise ValueError('alphabet no longer supported')
                try:
                    self.stream = open(source, 'r' + mode)
                    self.should_close_stream = True
                except TypeError:
                    self.stream = source
                    self.should_close_stream = False
                try:
                    self.records = self.parse(self.stream)
                except Exception:
                    if self.should_close_stream:
                        self.stream.close()
                    raise

            def __next__(self):
                try:
                    return next(self.records)
                except Exception:
                    if self.should_close_stream:
                        self.stream.close()
                    raise

            def __iter__(self):
                return self

            def parse(self, handle):
                raise NotImplementedError

        if getattr(_I.SequenceIterator, '__abstractmethods__', None):
            _I.SequenceIterator = _LegacySequenceIterator

        if hasattr(_SR, '_from_validated'):
            _orig = _SR._from_validated.__func__

            def _from_validated(cls, seq, id="<unknown id>", name="<unknown name>",
                    description="<unknown description>", dbxrefs=None, features=None,
                    annotations=None, letter_annotations=None):
                if cls is _SR:
                    return _orig(cls, seq, id, name, description, dbxrefs, features,
                        annotations, letter_annotations)
                inst = _orig(_SR, seq, id, name, description, dbxrefs, features,
                    annotations, letter_annotations)
                inst.__class__ = cls
                return inst
            _SR._from_validated = classmethod(_from_validated)

            _orig_init = _SR.__init__

            def _init(self, seq=None, *args, **kwargs):
                if isinstance(seq, str):
                    seq = _Seq(seq)
                _orig_init(self, seq, *args, **kwargs)
            _SR.__init__ = _init

            _orig_add = _SR.__add__

            def _add(self, other):
                if not isinstance(other, _SR):
                    if self._seq is None:
                        raise ValueError("Left operand seq=None, can't add")
                    return _SR(self._seq + other, id=self.id, name=self.name,
                        description=self.description, features=self.features[:],
                        annotations=self.annotations.copy(), dbxrefs=self.dbxrefs[:])
                return _orig_add(self, other)
            _SR.__add__ = _add
    except ImportError:
        pass


if os.environ.get('MOPEPGEN_VERIF') == '1':
    import sys
    import importlib.abc
    import importlib.util
    _TARGET = 'moPepGen.cli.call_variant_peptide'

    def _instrument(module):
        import json
        fail = set(x for x in os.environ.get('MOPEPGEN_VERIF_FAIL', '').split(',') if x)
        n_timeouts = int(os.environ.get('MOPEPGEN_VERIF_TIMEOUTS', '0') or 0)
        trace = os.environ.get('MOPEPGEN_VERIF_TRACE')

        def emit(ev):
            if trace:
                with open(trace, 'a') as fh:
                    fh.write(json.dumps(ev) + '\n')

        orig_main = module.call_peptide_main
        orig_fusion = module.call_peptide_fusion
        orig_circ = module.call_peptide_circ_rna
        orig_wrapper = module.call_variant_peptides_wrapper

        def call_peptide_main(*a, **kw):
            tx_id = kw.get('tx_id', a[0] if a else None)
            emit({'unit': 'main', 'id': str(tx_id), 'pid': os.getpid()})
            if 'main:' + str(tx_id) in fail:
                raise RuntimeError('VERIF injected failure main:' + str(tx_id))
            return orig_main(*a, **kw)

        def call_peptide_fusion(*a, **kw):
            variant = kw.get('variant', a[0] if a else None)
            emit({'unit': 'fusion', 'id': str(variant.id), 'pid': os.getpid()})
            if 'fusion:' + str(variant.id) in fail:
                raise RuntimeError('VERIF injected failure fusion:' + str(variant.id))
            return orig_fusion(*a, **kw)

        def call_peptide_circ_rna(*a, **kw):
            record = kw.get('record', a[0] if a else None)
            emit({'unit': 'circ', 'id': str(record.id), 'pid': os.getpid()})
            if 'circ:' + str(record.id) in fail:
                raise RuntimeError('VERIF injected failure circ:' + str(record.id))
            return orig_circ(*a, **kw)

        attempts = {}

        def call_variant_peptides_wrapper(*a, **kw):
            tx_id = kw.get('tx_id', a[0] if a else None)
            k = attempts.get(tx_id, 0)
            attempts[tx_id] = k + 1
            cp = kw.get('cleavage_params')
            emit({'unit': 'wrapper', 'id': str(tx_id), 'attempt': k, 'pid': os.getpid(),
                  'max_variants_per_node': getattr(cp, 'max_variants_per_node', None),
                  'additional_variants_per_misc': getattr(cp, 'additional_variants_per_misc', None)})
            if k < n_timeouts:
                raise TimeoutError('VERIF injected timeout ' + str(tx_id))
            return orig_wrapper(*a, **kw)

        module.call_peptide_main = call_peptide_main
        module.call_peptide_fusion = call_peptide_fusion
        module.call_peptide_circ_rna = call_peptide_circ_rna
        module.call_variant_peptides_wrapper = call_variant_peptides_wrapper
        module._verif_instrumented = True

    class _Finder(importlib.abc.MetaPathFinder):
        def find_spec(self, fullname, path, target=None):
            if fullname != _TARGET:
                return None
            sys.meta_path.remove(self)
            try:
                spec = importlib.util.find_spec(fullname)
            finally:
                sys.meta_path.insert(0, self)
            if spec is None:
                return None
            loader = spec.loader
            orig_exec = loader.exec_module

            def exec_module(module):
                orig_exec(module)
                _instrument(module)
            loader.exec_module = exec_module
            return spec

    sys.meta_path.insert(0, _Finder())
