"""Worker process: runs case specs of one monitor module against the repository's working tree."""
import importlib
import json
import logging
import os
import sys
import traceback
import warnings


def main():
    module, inp, out = sys.argv[1:4]
    warnings.simplefilter('ignore')
    logging.disable(logging.CRITICAL)
    mod = importlib.import_module('harness.monitors.' + module)
    chunk = json.load(open(inp))
    with open(out, 'w') as fh:
        for j, spec in chunk:
            try:
                r = mod.run_case(spec)
            except Exception as e:   # a crash of the *monitor or tool* on this case
                r = {'error': traceback.format_exc(), 'etype': type(e).__name__}
            if r is None:
                r = {'skipped': True}
            r.setdefault('spec', spec)
            fh.write(json.dumps([j, r], default=str) + '\n')
            fh.flush()


if __name__ == '__main__':
    main()
