"""Worker process: runs case specs of one monitor module against the repository's working tree."""
import importlib
import json
import logging
import os
import sys
import traceback
import warnings


REACH_SAMPLE = 40


def main():
    module, inp, out = sys.argv[1:4]
    warnings.simplefilter('ignore')
    logging.disable(logging.CRITICAL)
    mod = importlib.import_module('harness.monitors.' + module)
    chunk = json.load(open(inp))
    # reach counters: how often each function of the repository was ENTERED during this shard (sys.monitoring PY_START; code
    # outside moPepGen disables itself on first entry, so the cost stays at a few per cent)
    reach = {}
    mon = getattr(sys, 'monitoring', None)
    if mon is not None and os.environ.get('VERIF_REACH', '1') == '1':
        try:
            mon.use_tool_id(3, 'verif-reach')

            def on_start(code, offset):
                fn = code.co_filename
                k = fn.find('/moPepGen/')
                if k < 0:
                    return mon.DISABLE
                key = fn[k + 1:] + ':' + code.co_qualname
                reach[key] = reach.get(key, 0) + 1
            mon.register_callback(3, mon.events.PY_START, on_start)
            mon.set_events(3, mon.events.PY_START)
        except Exception:
            mon = None
    with open(out, 'w') as fh:
        for n_done, (j, spec) in enumerate(chunk):
            if mon is not None and n_done == REACH_SAMPLE:
                mon.set_events(3, 0)          # reach counters cover the first REACH_SAMPLE cases of every worker only (cost)
            try:
                r = mod.run_case(spec)
            except Exception as e:   # a crash of the *monitor or tool* on this case
                r = {'error': traceback.format_exc(), 'etype': type(e).__name__}
            if r is None:
                r = {'skipped': True}
            r.setdefault('spec', spec)
            fh.write(json.dumps([j, r], default=str) + '\n')
            fh.flush()
        if reach:
            fh.write(json.dumps([-1, {'reach': reach}]) + '\n')


if __name__ == '__main__':
    main()
