"""Definitional in-silico digestion (independent of moPepGen). Uses harness.model.rules and, for
peptide mass only, Bio.SeqUtils.molecular_weight (third party, trusted)."""
from __future__ import annotations
from functools import lru_cache
from Bio.SeqUtils import molecular_weight
from . import rules


class Limits:
    def __init__(self, rule='trypsin', exception=None, miscleavage=2, min_mw=500., min_length=7,
                 max_length=25):
        self.rule = rule
        self.exception = rules.resolve_exception(rule, exception)
        self.miscleavage = int(miscleavage)
        self.min_mw = float(min_mw)
        self.min_length = int(min_length)
        self.max_length = int(max_length)
        self.mixed = False

    def mixed_copy(self, mode='mixed'):
        l2 = Limits(self.rule, self.exception, self.miscleavage, self.min_mw, self.min_length, self.max_length)
        l2.mixed = mode
        return l2

    def has_context(self):
        return rules.has_context(self.rule, self.exception)

    def key(self):
        return (self.rule, self.exception, self.miscleavage, self.min_mw, self.min_length, self.max_length)

    def as_dict(self):
        return dict(rule=self.rule, exception=self.exception, miscleavage=self.miscleavage,
                    min_mw=self.min_mw, min_length=self.min_length, max_length=self.max_length)


@lru_cache(maxsize=200000)
def mass(p: str) -> float:
    return molecular_weight(p, 'protein')


def ok_peptide(p: str, lim: Limits, mass_margin: float = 0.0) -> bool:
    """Length / X / * / mass filter. mass_margin>0 makes the mass test stricter (used for MUST so
    that a peptide within rounding distance of the threshold is never demanded)."""
    if not (lim.min_length <= len(p) <= lim.max_length):
        return False
    if 'X' in p or '*' in p:
        return False
    try:
        return mass(p) >= lim.min_mw + mass_margin
    except (ValueError, KeyError):
        return False


def windows(aa: str, lim: Limits):
    """All (start, end) windows between cleavage sites with at most `miscleavage` internal sites."""
    if len(aa) == 0:
        return
    mode = getattr(lim, 'mixed', False)
    if mode == 'anycut':
        # diagnostic regime: every residue boundary may be a peptide end (is the sequence present in the protein at all?)
        n = len(aa)
        for i in range(n):
            for j in range(i + lim.min_length, min(n, i + lim.max_length) + 1):
                yield i, j
        return
    if mode and rules.has_context(lim.rule, lim.exception):
        # attribution regimes for the known finding "cleavage context is evaluated per graph node"
        loose = set(rules.loose_sites(aa, lim.rule)) | set(rules.cleave_sites(aa, lim.rule, None))
        mand = set(rules.mandatory_sites(aa, lim.rule, lim.exception))
        pts = sorted({0, len(aa)} | loose)
        if lim.rule.startswith('pepsin'):
            # pepsin's five-residue context is mis-evaluated so broadly (known finding) that only the
            # sequence content of a peptide is attributed, not its boundaries
            pts = list(range(len(aa) + 1))
        if mode == 'mixed':
            # every loose site may or may not be cut; only mandatory sites count as missed cleavages
            for i in range(len(pts) - 1):
                k = 0
                for j in range(i + 1, len(pts)):
                    yield pts[i], pts[j]
                    if pts[j] in mand:
                        k += 1
                        if k > lim.miscleavage:
                            break
        else:
            # robust: windows that exist however the optional sites are treated: both ends mandatory
            # (or protein ends), no optional site inside, at most `miscleavage` mandatory sites inside
            ends = sorted({0, len(aa)} | mand)
            for i in range(len(ends) - 1):
                for j in range(i + 1, min(i + lim.miscleavage + 2, len(ends))):
                    a, b = ends[i], ends[j]
                    if any(a < x < b and x not in mand for x in loose):
                        continue
                    yield a, b
        return
    sites = [0] + rules.cleave_sites(aa, lim.rule, lim.exception) + [len(aa)]
    n = len(sites)
    for i in range(n - 1):
        for j in range(i + 1, min(i + lim.miscleavage + 2, n)):
            yield sites[i], sites[j]


def digest(aa: str, lim: Limits, nterm_m: bool = True):
    """Set of (peptide, is_first, is_last) for the protein `aa` (already cut at its stop).
    is_first: window starts at the protein N-terminus (also for the Met-removed form)."""
    out = set()
    L = len(aa)
    for s, e in windows(aa, lim):
        p = aa[s:e]
        out.add((p, s == 0, e == L))
        if s == 0 and nterm_m and p.startswith('M') and len(p) > 1:
            out.add((p[1:], True, e == L))
    return out


def digest_peptides(aa: str, lim: Limits, nterm_m: bool = True, mass_margin: float = 0.0) -> set:
    return {p for p, _, _ in digest(aa, lim, nterm_m) if ok_peptide(p, lim, mass_margin)}


def n_internal_sites(p: str, lim: Limits) -> int:
    return len(rules.cleave_sites(p, lim.rule, lim.exception))


def canonical_pool(proteins, lim: Limits) -> set:
    """proteins: iterable of (sequence, cds_start_nf). Sequence is cut at the first '*', leading X
    are stripped. Pool contains Met-removed forms unless cds_start_nf, and I->L images."""
    pool = set()
    for seq, cds_start_nf in proteins:
        seq = seq.lstrip('X')
        i = seq.find('*')
        if i > -1:
            seq = seq[:i]
        for p in digest_peptides(seq, lim, nterm_m=not cds_start_nf):
            pool.add(p)
            pool.add(p.replace('I', 'L'))
    return pool
