"""ExPASy PeptideCutter cleavage rules, re-encoded POSITIONALLY (P4 P3 P2 P1 | P1' P2').

Independent of moPepGen (which stores pyteomics-style regular expressions). Each rule is a list of
alternatives; an alternative maps a position name to (allowed: bool, residue set): the residue at
that position must exist and be in (allowed=True) / not be in (allowed=False) the set. A site
after index i-1 (i.e. cleavage between residue i-1 = P1 and residue i = P1') exists iff some
alternative matches. Sites at 0 and at len(seq) are never reported (a specified position always has
to be occupied; P1 and P1' are always specified, either by a set or by 'any').

Source: PeptideCutter documentation table "Cleavage specificities of selected enzymes and chemicals".
"""
from __future__ import annotations

AA20 = 'ACDEFGHIKLMNPQRSTVWY'
ANY = (False, '')          # any residue, but it has to be present

POS = {'P4': -4, 'P3': -3, 'P2': -2, 'P1': -1, "P1'": 0, "P2'": 1}


def _in(s):
    return (True, s)


def _not(s):
    return (False, s)


_CASP_NOT = _not('PEDQKR')

RULES = {
    'arg-c': [{'P1': _in('R')}],
    'asp-n': [{"P1'": _in('D')}],
    'bnps-skatole': [{'P1': _in('W')}],
    'caspase 1': [{'P4': _in('FWYL'), 'P3': ANY, 'P2': _in('HAT'), 'P1': _in('D'), "P1'": _CASP_NOT}],
    'caspase 2': [{'P4': _in('D'), 'P3': _in('V'), 'P2': _in('A'), 'P1': _in('D'), "P1'": _CASP_NOT}],
    'caspase 3': [{'P4': _in('D'), 'P3': _in('M'), 'P2': _in('Q'), 'P1': _in('D'), "P1'": _CASP_NOT}],
    'caspase 4': [{'P4': _in('L'), 'P3': _in('E'), 'P2': _in('V'), 'P1': _in('D'), "P1'": _CASP_NOT}],
    'caspase 5': [{'P4': _in('LW'), 'P3': _in('E'), 'P2': _in('H'), 'P1': _in('D')}],
    'caspase 6': [{'P4': _in('V'), 'P3': _in('E'), 'P2': _in('HI'), 'P1': _in('D'), "P1'": _CASP_NOT}],
    'caspase 7': [{'P4': _in('D'), 'P3': _in('E'), 'P2': _in('V'), 'P1': _in('D'), "P1'": _CASP_NOT}],
    'caspase 8': [{'P4': _in('IL'), 'P3': _in('E'), 'P2': _in('T'), 'P1': _in('D'), "P1'": _CASP_NOT}],
    'caspase 9': [{'P4': _in('L'), 'P3': _in('E'), 'P2': _in('H'), 'P1': _in('D')}],
    'caspase 10': [{'P4': _in('I'), 'P3': _in('E'), 'P2': _in('A'), 'P1': _in('D')}],
    'chymotrypsin high specificity': [
        {'P1': _in('FY'), "P1'": _not('P')},
        {'P1': _in('W'), "P1'": _not('MP')}],
    'chymotrypsin low specificity': [
        {'P1': _in('FLY'), "P1'": _not('P')},
        {'P1': _in('W'), "P1'": _not('MP')},
        {'P1': _in('M'), "P1'": _not('PY')},
        {'P1': _in('H'), "P1'": _not('DMPW')}],
    'clostripain': [{'P1': _in('R')}],
    'cnbr': [{'P1': _in('M')}],
    'enterokinase': [{'P4': _in('DE'), 'P3': _in('DE'), 'P2': _in('DE'), 'P1': _in('K')}],
    'factor xa': [{'P4': _in('AFGILTVM'), 'P3': _in('DE'), 'P2': _in('G'), 'P1': _in('R')}],
    'formic acid': [{'P1': _in('D')}],
    'glutamyl endopeptidase': [{'P1': _in('E')}],
    'granzyme b': [{'P4': _in('I'), 'P3': _in('E'), 'P2': _in('P'), 'P1': _in('D')}],
    'hydroxylamine': [{'P1': _in('N'), "P1'": _in('G')}],
    'iodosobenzoic acid': [{'P1': _in('W')}],
    'lysc': [{'P1': _in('K')}],
    'lysn': [{"P1'": _in('K')}],
    'ntcb': [{"P1'": _in('C')}],
    'pepsin ph1.3': [
        {'P3': _not('HKR'), 'P2': _not('P'), 'P1': _not('R'), "P1'": _in('FL'), "P2'": _not('P')},
        {'P3': _not('HKR'), 'P2': _not('P'), 'P1': _in('FL'), "P1'": ANY, "P2'": _not('P')}],
    'pepsin ph2.0': [
        {'P3': _not('HKR'), 'P2': _not('P'), 'P1': _not('R'), "P1'": _in('FLWY'), "P2'": _not('P')},
        {'P3': _not('HKR'), 'P2': _not('P'), 'P1': _in('FLWY'), "P1'": ANY, "P2'": _not('P')}],
    'proline endopeptidase': [{'P2': _in('HKR'), 'P1': _in('P'), "P1'": _not('P')}],
    'proteinase k': [{'P1': _in('AEFILTVWY')}],
    'staphylococcal peptidase i': [{'P2': _not('E'), 'P1': _in('E')}],
    'thermolysin': [{'P1': _not('DE'), "P1'": _in('AFILMV')}],
    'thrombin': [
        {'P2': _in('G'), 'P1': _in('R'), "P1'": _in('G')},
        {'P4': _in('AFGILTVM'), 'P3': _in('AFGILTVW'), 'P2': _in('P'), 'P1': _in('R'),
         "P1'": _not('DE'), "P2'": _not('DE')}],
    'trypsin': [
        {'P1': _in('KR'), "P1'": _not('P')},
        {'P2': _in('W'), 'P1': _in('K'), "P1'": _in('P')},
        {'P2': _in('M'), 'P1': _in('R'), "P1'": _in('P')}],
}

# sites at which cleavage is blocked although the rule matches
EXCEPTIONS = {
    'trypsin_exception': [
        {'P2': _in('CD'), 'P1': _in('K'), "P1'": _in('D')},
        {'P2': _in('C'), 'P1': _in('K'), "P1'": _in('HY')},
        {'P2': _in('C'), 'P1': _in('R'), "P1'": _in('K')},
        {'P2': _in('R'), 'P1': _in('R'), "P1'": _in('HR')}],
}

ENZYMES = sorted(RULES)
# Which enzymes cut N-terminally of the recognised residue (P1' specified, P1 free)
NTERM_CUTTERS = {'asp-n', 'lysn', 'ntcb'}


def _match_alt(seq: str, i: int, alt: dict, open_nterm: bool = False) -> bool:
    n = len(seq)
    for name, (allowed, s) in alt.items():
        p = i + POS[name]
        if open_nterm and p < 0 and name in ('P4', 'P3', 'P2'):
            continue       # attribution only: the graph node holds residues translated from upstream of the start codon there
        if p < 0 or p >= n:
            return False
        c = seq[p]
        if allowed:
            if c not in s:
                return False
        else:
            if c in s:
                return False
    return True


def _complete(alt: dict) -> dict:
    """P1 and P1' always have to be occupied (a site is between two residues)."""
    a = dict(alt)
    a.setdefault('P1', ANY)
    a.setdefault("P1'", ANY)
    return a


_RULES_C = {k: [_complete(a) for a in v] for k, v in RULES.items()}
_EXC_C = {k: [_complete(a) for a in v] for k, v in EXCEPTIONS.items()}


def resolve_exception(rule: str, exception):
    """CLI semantics: 'auto' means trypsin_exception for trypsin, nothing otherwise."""
    if exception == 'auto':
        return 'trypsin_exception' if rule == 'trypsin' else None
    if exception in ('', 'None'):
        return None
    return exception


def is_site(seq: str, i: int, rule: str, exception=None) -> bool:
    if i <= 0 or i >= len(seq):
        return False
    if not any(_match_alt(seq, i, a) for a in _RULES_C[rule]):
        return False
    if exception:
        if any(_match_alt(seq, i, a) for a in _EXC_C[exception]):
            return False
    return True


def cleave_sites(seq: str, rule: str, exception=None) -> list:
    """Sorted list of cleavage sites 0 < i < len(seq): cleavage between seq[i-1] and seq[i]."""
    return [i for i in range(1, len(seq)) if is_site(seq, i, rule, exception)]


def window(rule: str) -> tuple:
    """(left, right) context needed around a site: number of residues before / after the cut."""
    lo, hi = 1, 1
    for a in _RULES_C[rule]:
        for name in a:
            p = POS[name]
            lo = max(lo, -p)
            hi = max(hi, p + 1)
    return lo, hi


def alphabet(rule: str, exception=None, neutral='S') -> str:
    """Reduced alphabet for exhaustive checks: every residue mentioned by the rule (and exception)
    plus one neutral residue that is mentioned nowhere."""
    s = set()
    for a in _RULES_C[rule] + (_EXC_C[exception] if exception else []):
        for _, (_, letters) in a.items():
            s.update(letters)
    for c in neutral + AA20:
        if c not in s:
            s.add(c)
            break
    return ''.join(sorted(s))


# ------------------------------------------------------------------------------------------
# Decomposition used only to ATTRIBUTE discrepancies to the known finding "cleavage context beyond
# P1/P1' is evaluated per graph node" (never to decide a property):
#   loose sites      positions at which some alternative matches when only its P1 / P1' parts are kept
#   mandatory sites  positions at which an alternative WITHOUT any P4,P3,P2,P2' constraint matches and
#                    that the exception does not block (their status cannot depend on lost context)
_CTX = ('P4', 'P3', 'P2', "P2'")


def _strip(alt):
    return {k: v for k, v in alt.items() if k not in _CTX}


def _strip_negative(alt):
    """Drop only the NEGATIVE context constraints (residue must not be ...). Node-local evaluation can lose context residues:
    a look-behind / look-ahead that REQUIRES a residue then fails (site lost, never gained), one that FORBIDS a residue then
    passes (site gained). So a position is a possible cut only if the positive context really holds on the haplotype."""
    return {k: v for k, v in alt.items() if not (k in _CTX and v[0] is False and v[1] != '')}


_LOOSE = {k: [_complete(_strip_negative(a)) for a in v] for k, v in RULES.items()}
_FREE = {k: [_complete(a) for a in v if not any(c in a for c in _CTX)] for k, v in RULES.items()}


def has_context(rule, exception=None) -> bool:
    return bool(exception) or any(any(c in a for c in _CTX) for a in RULES[rule])


def loose_sites(seq, rule):
    # a REQUIRED context residue that would lie before the protein's first residue counts as unknown: callVariant evaluates the
    # look-behind on the graph node, which also holds the residues translated from the 5'UTR (known finding KF-CTX)
    return [i for i in range(1, len(seq)) if any(_match_alt(seq, i, a, open_nterm=True) for a in _LOOSE[rule])]


_LOOSE_P1 = {k: [_complete(_strip(a)) for a in v] for k, v in RULES.items()}


def loose_sites_no_context(seq, rule):
    """Positions that could be sites for SOME context outside `seq` (only P1 / P1' are looked at): upper bound on the number of
    internal sites of an isolated peptide, whose flanking residues are unknown."""
    return [i for i in range(1, len(seq)) if any(_match_alt(seq, i, a) for a in _LOOSE_P1[rule])]


def mandatory_sites(seq, rule, exception=None):
    out = []
    for i in range(1, len(seq)):
        if any(_match_alt(seq, i, a) for a in _FREE[rule]):
            if exception and any(_match_alt(seq, i, _complete(_strip(a))) or
                                 _match_alt(seq, i, _complete({k: v for k, v in a.items() if k != "P1'"}))
                                 for a in EXCEPTIONS[exception]):
                continue      # possibly blocked when part of the context (P2 or P1') comes from another branch: optional
            out.append(i)
    return out
