"""Definitional MUST / MAY oracle for callVariant-like peptide calling (DESIGN.md section 4).

Independent of moPepGen. A *backbone* is a base nucleotide string plus candidate *edits*; a
haplotype is a set of pairwise non-overlapping edits; peptides are the digestion products of the
translations of the edited string.

  MAY  - liberal reading (soundness: OUT must be a subset of the union of MAY over backbones)
  MUST - conservative reading (completeness: MUST must be a subset of OUT)
"""
from __future__ import annotations
import itertools
import re
from . import digest as dg
from .seqmodel import translate

MAX_HAP = 6000


class Edit:
    __slots__ = ('start', 'end', 'alt', 'ids', 'cls', 'must', 'side', 'nstart', 'nend', 'nalt', 'tag', 'cstart')

    def __init__(self, start, end, alt, ids, cls, must=True, side=None, tag=None, cstart=None):
        self.start, self.end, self.alt = start, end, alt
        self.cstart = start if cstart is None else cstart   # span start used by the conservative adjacency rule
        self.ids = frozenset(ids)
        self.cls = cls          # 'S' snv, 'I' indel, 'M' multi-base substitution, 'A' alternative splicing
        self.must = must        # usable under the conservative reading
        self.side = side        # for fusions: 1 donor, 2 acceptor
        self.tag = tag
        self.nstart = self.nend = self.nalt = None

    def normalise(self, seq):
        """Trim the common prefix / suffix of REF and ALT (anchor bases are not changes)."""
        ref = seq[self.start:self.end]
        alt = self.alt
        a = 0
        while a < len(ref) and a < len(alt) and ref[a] == alt[a]:
            a += 1
        b = 0
        while b < len(ref) - a and b < len(alt) - a and ref[len(ref) - 1 - b] == alt[len(alt) - 1 - b]:
            b += 1
        self.nstart, self.nend, self.nalt = self.start + a, self.end - b, alt[a:len(alt) - b]

    def __repr__(self):
        return f'Edit({self.start},{self.end},{self.alt[:12]},{sorted(self.ids)},{self.cls},must={self.must})'


class Backbone:
    def __init__(self, bid, seq, kind, tx=None):
        self.id = bid
        self.seq = seq
        self.kind = kind                 # 'main' | 'fusion' | 'circ'
        self.tx = tx                     # owning (donor) transcript object
        self.coding = False
        self.known_start = None          # backbone offset of the annotated start
        self.sec = []                    # backbone offsets of annotated Sec codons (demanded as U)
        self.sec_may = []                # additional Sec codons only MAY reads as U
        self.cds_start_nf = False
        self.end_nf = False              # translation may run off an unterminated end
        self.edits = []
        self.atg_must_end = None         # fusion/non-coding: ATG must lie before this offset (MUST)
        self.atg_may_end = None
        self.circular = False
        self.considered = True           # False: the tool documents that it ignores this backbone
        self.ref_seq = None              # unmodified transcript the reference peptides come from
        self.ref_known_start = None
        self.ref_sec = []
        self.ref_coding = None
        self.stop_may_only_after = None  # offsets >= this: stops may be read through (acceptor Sec)

    def add(self, e: Edit):
        e.normalise(self.seq)
        self.edits.append(e)


class Flags:
    def __init__(self, sect=False, w2f=False, coding_novel_orf=False, max_adjacent=2, backsplicing_only=False,
                 noncanonical_transcripts=False):
        self.sect, self.w2f, self.coding_novel_orf = sect, w2f, coding_novel_orf
        self.max_adjacent = max_adjacent
        self.backsplicing_only = backsplicing_only
        self.noncanonical_transcripts = noncanonical_transcripts
        self.strict_end_nf = False      # liberal reading too: no open C-terminal peptide of an mRNA_end_NF molecule (callAltTranslation)


# ------------------------------------------------------------------------------------------
def apply_edits(seq, edits):
    """Apply sorted non-overlapping edits. Returns (new_seq, pmap) where pmap maps an offset of
    seq to the offset in new_seq, or None if the base is consumed by a (normalised) edit."""
    out = []
    cur = 0
    spans = []
    delta = 0
    for e in edits:
        out.append(seq[cur:e.start])
        out.append(e.alt)
        cur = e.end
        delta += len(e.alt) - (e.end - e.start)
        spans.append((e.nstart, e.nend, delta, len(e.nalt)))
    out.append(seq[cur:])

    def pmap(p):
        d = 0
        for ns, ne, dl, _ in spans:
            if p >= ne:
                d = dl
            elif p >= ns:
                return None
            else:
                break
        return p + d
    return ''.join(out), pmap


def compatible_loose(edits):
    for a, b in zip(edits, edits[1:]):
        if a.end > b.start:
            return False
    return True


def compatible_must(edits, max_adjacent=2):
    run = 1
    for a, b in zip(edits, edits[1:]):
        if a.end > b.cstart:
            return False
        if a.end == b.cstart:
            ca = 'S' if a.cls == 'S' else ('I' if a.cls == 'I' else a.cls)
            cb = 'S' if b.cls == 'S' else ('I' if b.cls == 'I' else b.cls)
            if ca != cb or ca not in ('S', 'I'):
                return False
            run += 1
            if run > max_adjacent:
                return False
        else:
            run = 1
    return True


def haplotypes(edits, limit=MAX_HAP):
    """All non-empty sets of pairwise non-overlapping edits (sorted tuples)."""
    edits = sorted(edits, key=lambda e: (e.start, e.end, e.alt))
    n = 0
    out = []

    def rec(i, cur):
        nonlocal n
        if n > limit:
            return
        if i == len(edits):
            if cur:
                n += 1
                out.append(tuple(cur))
            return
        rec(i + 1, cur)
        e = edits[i]
        if not cur or cur[-1].end <= e.start:
            cur.append(e)
            rec(i + 1, cur)
            cur.pop()
    rec(0, [])
    if n > limit:
        raise OverflowError('too many haplotypes')
    return out


def w2f_forms(p, max_w=6):
    idx = [i for i, c in enumerate(p) if c == 'W']
    if not idx or len(idx) > max_w:
        return []
    out = []
    for k in range(1, len(idx) + 1):
        for comb in itertools.combinations(idx, k):
            q = list(p)
            for i in comb:
                q[i] = 'F'
            out.append(''.join(q))
    return out


def _proteins(hap, start, sec, flags, read_through_from=None):
    """Translations from `start`: [(aa, hit_stop, sect_truncated)]. Sec codons (offsets in hap) that are in
    frame and intact are read as U; with flags.sect each U also gives a truncated form."""
    sub = hap[start:]
    aa = translate(sub, [p - start for p in sec if p >= start and (p - start) % 3 == 0])
    i = aa.find('*')
    hit = i != -1
    if hit:
        aa = aa[:i]
    out = [(aa, hit, False)]
    if flags.sect:
        for k, c in enumerate(aa):
            if c == 'U':
                out.append((aa[:k], True, True))
    return out


def backbone_peptides(bb: Backbone, edits, lim: dg.Limits, flags: Flags, must: bool, mass_margin=0.0):
    """Peptides of one haplotype of a backbone under the conservative (must) or liberal reading."""
    hap, pmap = apply_edits(bb.seq, edits)
    # Sec codons
    sec_ok, sec_touched = [], []
    for c in bb.sec:
        ps = [pmap(c + k) for k in range(3)]
        if None in ps or ps[2] - ps[0] != 2:
            sec_touched.append(c)
        else:
            sec_ok.append(ps[0])
    # an edit whose raw span (including an unchanged anchor base) overlaps a Sec codon: the codon
    # is intact in the haplotype but the record touches it; both readings are allowed, none demanded
    sec_anchor = [c for c in bb.sec if c not in sec_touched
                  and any(e.start < c + 3 and c < e.end for e in edits)]
    if must and (sec_touched or sec_anchor):
        return set()        # a Sec codon touched by an edit: reading is ambiguous, nothing demanded
    sec_sets = [sec_ok]
    if sec_anchor:
        amap = {pmap(c) for c in sec_anchor}
        sec_sets.append([p for p in sec_ok if p not in amap])
    if True:
        extra = []
        for c in (sec_touched if not must else []) + list(bb.sec_may):
            # liberal: any TGA that lands near where the codon was may still be read as U
            base = None
            for k in range(0, 12):
                for q in (c - k, c + k):
                    if 0 <= q < len(bb.seq) and pmap(q) is not None:
                        base = pmap(q) + (c - q)
                        break
                if base is not None:
                    break
            if base is None:
                continue
            for q in range(max(0, base - 9), min(len(hap) - 2, base + 10)):
                if hap[q:q + 3] == 'TGA':
                    extra.append(q)
        exact = []
        for c in bb.sec_may:
            ps = [pmap(c + k) for k in range(3)]
            if None not in ps and ps[2] - ps[0] == 2 and hap[ps[0]:ps[0] + 3] == 'TGA':
                exact.append(ps[0])
        if exact:
            # every subset of the ambiguous codons may be read as U (the others as stop)
            ex = sorted(set(exact))[:6]
            for k in range(1, len(ex) + 1):
                for comb in itertools.combinations(ex, k):
                    sec_sets.append(sorted(set(sec_ok + list(comb))))
        if extra:
            sec_sets.append(sorted(set(sec_ok + extra)))
    L = len(hap)
    if bb.circular:
        if L == 0:
            return set()
        full = hap * 4
        sec_sets = [[p + k * L for p in s for k in range(4)] for s in sec_sets]
    else:
        full = hap
    # starts
    starts = []
    use_known = bb.coding and bb.known_start is not None
    if use_known:
        ks = pmap(bb.known_start)
        # the annotated start is a permitted start site only while its codon reads ATG (or the CDS start is annotated as
        # incomplete): a fusion whose breakpoint cuts into the donor's start codon completes the codon with acceptor bases
        start_ok = bb.cds_start_nf or ks is None or full[ks:ks + 3] == 'ATG'
        if ks is not None and start_ok:
            starts.append((ks, True))
        if not must and start_ok:
            starts.append((bb.known_start, True))     # reading that ignores upstream indels
    # novel ORFs of coding transcripts (--coding-novel-orf) are allowed (MAY) but never demanded: the
    # documentation does not say which variants reach the non-canonical frames of a coding transcript
    if not use_known or (flags.coding_novel_orf and not must):
        for m in re.finditer('(?=ATG)', full):
            s = m.start()
            if bb.circular:
                if must and s >= L:
                    continue
            lim_end = bb.atg_must_end if must else bb.atg_may_end
            if lim_end is not None:
                le = pmap(lim_end - 1) if lim_end > 0 else -1
                le = (le + 1) if le is not None else None
                if must:
                    if le is None or s + 3 > le:
                        continue
                else:
                    if le is not None and s > le + 2:
                        continue
            starts.append((s, False))
    out = set()
    per_reading = []
    seen_starts = set()
    starts = [x for x in starts if not (x in seen_starts or seen_starts.add(x))]
    for sec in sec_sets:
        out = set()
        per_reading.append(out)
        for st, known in starts:
            for aa, hit, sect_trunc in _proteins(full, st, sec, flags):
                if not aa:
                    continue
                nterm_m = True
                if must and known and bb.cds_start_nf:
                    nterm_m = False
                for p, is_first, is_last in dg.digest(aa, lim, nterm_m=nterm_m):
                    if (must or getattr(flags, 'strict_end_nf', False)) and is_last and not hit and (bb.end_nf or bb.circular):
                        continue
                    if must and known and bb.cds_start_nf and is_first:
                        # first peptide of an incomplete CDS: its true N-terminus is unknown
                        pass
                    if dg.ok_peptide(p, lim, mass_margin if must else 0.0):
                        out.add(p)
                    if flags.w2f and 'W' in p:
                        for q in w2f_forms(p):
                            if dg.ok_peptide(q, lim, mass_margin if must else 0.0):
                                out.add(q)
    if must:
        res = per_reading[0]
        for o in per_reading[1:]:
            res = res & o     # demanded only if every reading of an ambiguous Sec codon yields it
        return res
    res = set()
    for o in per_reading:
        res |= o
    return res


def reference_peptides(bb: Backbone, lim: dg.Limits, flags: Flags):
    """Liberal digest of the unmodified transcript the backbone derives from (what is *not* a variant
    peptide)."""
    ref = Backbone(bb.id, bb.ref_seq if bb.ref_seq is not None else bb.seq, 'main', bb.tx)
    ref.coding = bb.coding if bb.ref_coding is None else bb.ref_coding
    ref.known_start = bb.ref_known_start if bb.ref_seq is not None else bb.known_start
    ref.sec = list(bb.ref_sec if bb.ref_seq is not None else bb.sec)
    ref.cds_start_nf = bb.cds_start_nf or bool(getattr(bb.tx, 'cds_start_nf', False))     # the unmodified transcript's own flag (circRNA backbones carry none)
    out = backbone_peptides(ref, (), lim, flags, must=False)
    if not ref.coding or flags.coding_novel_orf:
        pass
    else:
        # liberal: also every other ATG of the reference (never demanded as variant peptides)
        f2 = Flags(flags.sect, flags.w2f, True, flags.max_adjacent)
        out |= backbone_peptides(ref, (), lim, f2, must=False)
    return out


def evaluate(bb: Backbone, lim: dg.Limits, flags: Flags, mass_margin=1e-3):
    """Returns dict(must=set, may=set, ref=set, n_hap=int, n_must_hap=int)."""
    refpep = reference_peptides(bb, lim, flags)
    # a Sec codon overlapped by the raw span of ANY supplied record (even one outside the haplotype) is
    # read ambiguously by design: nothing that depends on its reading is demanded
    amb = [c for c in bb.sec if any(e.start < c + 3 and c < e.end for e in bb.edits)]
    if amb:
        bb.sec = [c for c in bb.sec if c not in amb]
        bb.sec_may = list(bb.sec_may) + amb
    must, may = set(), set()
    n_h = n_mh = 0
    # the base backbone itself (fusion / circRNA junction peptides) is haplotype ()
    haps = [()] if bb.kind in ('fusion', 'circ') else []
    haps += haplotypes(bb.edits)
    for h in haps:
        n_h += 1
        may |= backbone_peptides(bb, h, lim, flags, must=False)
        if bb.considered and all(e.must for e in h) and compatible_must(h, flags.max_adjacent):
            n_mh += 1
            must |= backbone_peptides(bb, h, lim, flags, must=True, mass_margin=mass_margin)
    must -= refpep
    return {'must': must, 'may': may, 'ref': refpep, 'n_hap': n_h, 'n_must_hap': n_mh}


def witness(bb: Backbone, ids, lim: dg.Limits, flags: Flags, peptide: str):
    """C03: does applying exactly the edits named by `ids` (a set of record ids) to the backbone give
    a translation of which `peptide` is a digestion product (liberal reading)?
    Returns (ok, reason)."""
    ids = set(ids)
    alt = {i for i in ids if i.startswith('SECT-') or i.startswith('W2F-')}
    ids -= alt
    named = [e for e in bb.edits if e.ids <= ids]
    # choose a set of edits whose ids exactly cover `ids`
    cands = []
    for h in ([()] + haplotypes(named) if named else [()]):
        cov = set()
        for e in h:
            cov |= e.ids
        if cov == ids:
            cands.append(h)
    if not cands:
        return False, 'named variants cannot be applied together to this backbone'
    f = Flags(sect=flags.sect or any(a.startswith('SECT-') for a in alt),
              w2f=flags.w2f or any(a.startswith('W2F-') for a in alt),
              coding_novel_orf=flags.coding_novel_orf, max_adjacent=flags.max_adjacent)
    for h in cands:
        if peptide in backbone_peptides(bb, h, lim, f, must=False):
            return True, ''
    return False, 'peptide is not a digestion product of the backbone carrying exactly the named variants'


def circ_lapmix_peptides(bb: Backbone, lim: dg.Limits, flags: Flags, only_ids=None, max_edits=3, laps=4):
    """Attribution aid (never a verdict by itself): peptides of a circular backbone when every lap may carry its OWN subset of
    the records - the alleles of one molecule mixed between laps, which no real circular molecule can produce. Used to recognise
    the known finding 'circRNA laps mix alleles'. Returns None when there are too many records to enumerate."""
    if not bb.circular:
        return set()
    edits = [e for e in bb.edits if only_ids is None or e.ids <= set(only_ids)]
    if len(edits) > max_edits:
        return None
    per_lap = [()] + haplotypes(edits)
    out = set()
    for combo in itertools.product(per_lap, repeat=laps):
        if len(set(combo)) == 1:
            continue                      # the same alleles in every lap: a real molecule
        full = ''.join(apply_edits(bb.seq, h)[0] for h in combo)
        for m in re.finditer('(?=ATG)', full):
            st = m.start()
            aa = translate(full[st:])
            k = aa.find('*')
            if k != -1:
                aa = aa[:k]
            for p, _, _ in dg.digest(aa, lim, nterm_m=True):
                if dg.ok_peptide(p, lim):
                    out.add(p)
    return out
