"""Reference object model (G-REF / O-COORD / O-SEQ / O-TRANS). Independent of moPepGen.

Coordinates:
  genomic   0-based position on the chromosome (+ strand orientation)
  gene      0-based offset from the gene's first base in gene orientation
  tx        0-based offset in the spliced transcript (gene orientation)
"""
from __future__ import annotations

COMP = str.maketrans('ACGTNacgtn', 'TGCANtgcan')
STOPS = {'TAA', 'TAG', 'TGA'}

_CODON = {}
_b = 'TCAG'
_aa = 'FFLLSSSSYY**CC*WLLLLPPPPHHQQRRRRIIIMTTTTNNKKSSRRVVVVAAAADDEEGGGG'
_k = 0
for _x in _b:
    for _y in _b:
        for _z in _b:
            _CODON[_x + _y + _z] = _aa[_k]
            _k += 1


def revcomp(s: str) -> str:
    return s.translate(COMP)[::-1]


def translate(dna: str, sec_positions=()) -> str:
    """Standard-table translation of dna[0:], partial trailing codon dropped. Positions in
    sec_positions (offsets into dna, multiples of 3) that hold an intact TGA are read as 'U'."""
    n = len(dna) - len(dna) % 3
    sec = set(sec_positions)
    out = []
    for i in range(0, n, 3):
        c = dna[i:i + 3]
        if i in sec and c == 'TGA':
            out.append('U')
        else:
            out.append(_CODON.get(c, 'X'))
    return ''.join(out)


class Tx:
    def __init__(self, tx_id, gene, exons, coding=False, cds=None, sec=None,
                 cds_start_nf=False, mrna_end_nf=False, biotype=None):
        self.id = tx_id
        self.gene = gene
        self.exons = list(exons)     # gene-coordinate [s,e) sorted, non-overlapping, non-adjacent
        self.coding = coding
        self.cds = cds               # (tx_start, tx_end): end = start of stop codon (or end of last full codon if NF)
        self.sec = sec or []         # tx coords of Sec codon starts
        self.cds_start_nf = cds_start_nf
        self.mrna_end_nf = mrna_end_nf
        self.biotype = biotype or ('protein_coding' if coding else 'lncRNA')
        self.protein_id = tx_id.replace('T', 'P', 1)

    def tx_len(self):
        return sum(e - s for s, e in self.exons)

    def tx2gene(self, i):
        for s, e in self.exons:
            if i < e - s:
                return s + i
            i -= e - s
        raise IndexError(i)

    def gene2tx(self, g):
        off = 0
        for s, e in self.exons:
            if s <= g < e:
                return off + g - s
            off += e - s
        return None

    def exon_index(self, g):
        for k, (s, e) in enumerate(self.exons):
            if s <= g < e:
                return k
        return None

    def seq(self, gene_seq):
        return ''.join(gene_seq[s:e] for s, e in self.exons)

    def introns(self):
        return [(a[1], b[0]) for a, b in zip(self.exons, self.exons[1:])]

    def junctions_tx(self):
        """tx offsets at which a new exon starts."""
        out, off = [], 0
        for s, e in self.exons[:-1]:
            off += e - s
            out.append(off)
        return out


class Gene:
    def __init__(self, gid, chrom, start, end, strand, name, biotype):
        self.id = gid
        self.chrom = chrom
        self.start = start    # genomic 0-based, inclusive
        self.end = end        # exclusive
        self.strand = strand
        self.name = name
        self.biotype = biotype
        self.txs = []

    def __len__(self):
        return self.end - self.start

    def g2genomic(self, g):
        return self.start + g if self.strand == 1 else self.end - 1 - g

    def genomic2g(self, p):
        return p - self.start if self.strand == 1 else self.end - 1 - p

    def seq(self, chrom_seq):
        s = chrom_seq[self.start:self.end]
        return s if self.strand == 1 else revcomp(s)


class Reference:
    def __init__(self):
        self.chroms = {}
        self.genes = []

    def gene_seq(self, gene):
        return gene.seq(self.chroms[gene.chrom])

    def tx_seq(self, tx):
        return tx.seq(self.gene_seq(tx.gene))

    def set_gene_base(self, gene, g, base):
        pos = gene.g2genomic(g)
        c = self.chroms[gene.chrom]
        b = base if gene.strand == 1 else base.translate(COMP)
        self.chroms[gene.chrom] = c[:pos] + b + c[pos + 1:]

    def all_txs(self):
        for g in self.genes:
            for t in g.txs:
                yield t

    def tx_by_id(self, tx_id):
        for t in self.all_txs():
            if t.id == tx_id:
                return t
        raise KeyError(tx_id)

    def gene_by_id(self, gid):
        for g in self.genes:
            if g.id == gid:
                return g
        raise KeyError(gid)

    def protein(self, tx):
        """Annotated protein as written to the proteome FASTA (Sec as U), no trailing '*'."""
        s = self.tx_seq(tx)
        cs, ce = tx.cds
        aa = translate(s[cs:ce], [c - cs for c in tx.sec])
        return aa

    def proteins(self):
        return [(self.protein(t), t.cds_start_nf) for t in self.all_txs() if t.coding]
