"""callVariant engine shared by the C01-C05 monitors: seeded case generation (reference + GVF
records + configuration), construction of the definitional backbones from the G-REF model and the
generated records, in-process execution of callVariant, and the per-case judgments."""
from __future__ import annotations
import itertools
import random
import re

from harness.gen import refgen, gvfgen
from harness.gen.gvfgen import Small, ASDel, ASIns, ASSub, Fusion, Circ
from harness.model import oracle as orc, digest as dg, rules
from harness import drivers


# ------------------------------------------------------------------------------------------
# case generation

STRATA = ['small', 'small', 'small', 'as', 'as_nested', 'fusion', 'fusion_var', 'circ', 'circ_var', 'multi', 'sec']


def gen_config(rng, stratum, light=False):
    cfg = {}
    r = rng.random()
    if r < 0.7:
        cfg['rule'] = 'trypsin'
    elif r < 0.85:
        cfg['rule'] = rng.choice(['lysc', 'arg-c', 'glutamyl endopeptidase', 'asp-n', 'lysn',
                                  'chymotrypsin high specificity'])
    else:
        cfg['rule'] = rng.choice(rules.ENZYMES)
    cfg['exception'] = rng.choice(['auto', 'auto', 'auto', None, 'trypsin_exception']) if cfg['rule'] == 'trypsin' \
        else rng.choice(['auto', None])
    cfg['miscleavage'] = rng.choice([0, 1, 2, 2, 2, 3])
    cfg['min_length'] = rng.choice([5, 7, 7, 7])
    cfg['max_length'] = rng.choice([15, 25, 25, 25, 40])
    cfg['min_mw'] = rng.choice([0., 500., 500., 500., 800.])
    cfg['sect'] = rng.random() < 0.25
    cfg['w2f'] = rng.random() < 0.15
    cfg['coding_novel_orf'] = rng.random() < 0.2
    cfg['min_nodes_to_collapse'] = rng.choice([1, 3, 30])
    cfg['naa_to_collapse'] = rng.choice([1, 3, 5])
    cfg['max_adjacent_as_mnv'] = 2
    if light:
        cfg.update(rule='trypsin', exception='auto', miscleavage=2, min_length=7, max_length=25, min_mw=500.,
                   sect=False, w2f=False, coding_novel_orf=False)
    return cfg


class Case:
    def __init__(self):
        self.ref = None
        self.files = []       # [(filename, source, [recs])]
        self.cfg = None
        self.stratum = None
        self.note = {}

    def recs(self):
        return [r for _, _, rs in self.files for r in rs]


def build_case(spec) -> Case:
    rng = random.Random(spec['seed'])
    drawn = rng.choice(STRATA)
    stratum = spec.get('stratum') or drawn
    c = Case()
    c.stratum = stratum
    c.cfg = gen_config(rng, stratum, light=spec.get('light', False))
    if spec.get('cfg'):
        c.cfg.update(spec['cfg'])
    maker = globals()['_mk_' + stratum]
    for _ in range(30):
        if maker(rng, c, spec):
            return c
    return None


def _mk_small(rng, c, spec, n_genes=1, isoforms=(1, 1)):
    c.ref = refgen.make_reference(rng, n_genes=n_genes, isoforms=isoforms,
                                  short_exon_p=0.1 if rng.random() < 0.3 else 0.0)
    tx = c.ref.genes[0].txs[0]
    n = rng.randint(1, spec.get('max_var', 6))
    vs = gvfgen.make_small_variants(rng, c.ref, tx, n, snv_p=rng.choice([0.6, 0.6, 0.3, 0.9]),
                                    mnv_p=rng.choice([0, 0.05, 0.15]))
    if not vs:
        return False
    # split across 1-2 files with different sources
    if len(vs) > 1 and rng.random() < 0.3:
        k = rng.randint(1, len(vs) - 1)
        c.files = [('v1.gvf', 'gSNP', vs[:k]), ('v2.gvf', 'gINDEL', vs[k:])]
    else:
        c.files = [('v1.gvf', 'gSNP', vs)]
    return True


def _mk_sec(rng, c, spec):
    """Selenoprotein with 1-3 Sec codons; records clustered tightly around the Sec codons; SECT mostly on."""
    c.ref = refgen.make_reference(rng, n_genes=1, coding_p=1.0, sec_p=1.0, nf_p=0.1, min_exons=1, max_exons=4,
                                  exon_len=(40, 140))
    tx = c.ref.genes[0].txs[0]
    if not tx.coding or not tx.sec:
        return False
    draw = rng.random() < 0.75
    if 'sect' not in (spec.get('cfg') or {}):
        c.cfg['sect'] = draw
    vs = {}
    for _ in range(rng.randint(1, 5)):
        sc = rng.choice(tx.sec)
        t = sc + rng.choice([-1, -1, -2, -3, -4, 0, 1, 2, 3, 4, -6, 6, -9, rng.randint(-30, 30)])
        if not 0 <= t < tx.tx_len():
            continue
        v = gvfgen.rand_small(rng, c.ref, tx, tx.tx2gene(t), max_indel=3, snv_p=0.6, mnv_p=0.1)
        if v is not None:
            vs[v.id] = v
    if not vs:
        return False
    c.files = [('v1.gvf', 'gSNP', sorted(vs.values(), key=lambda v: (v.gstart, v.gend, v.alt)))]
    return True


def _mk_multi(rng, c, spec):
    """Several genes / isoforms carrying small variants; the same genomic event listed for every
    isoform in which it is exonic."""
    c.ref = refgen.make_reference(rng, n_genes=rng.randint(1, 3), isoforms=(1, 3), n_chroms=rng.randint(1, 2))
    recs = {}
    for gene in c.ref.genes:
        if rng.random() < 0.25:
            continue
        gs = c.ref.gene_seq(gene)
        tx0 = rng.choice(gene.txs)
        for v in gvfgen.make_small_variants(rng, c.ref, tx0, rng.randint(1, 4)):
            for tx in gene.txs:
                inside = tx.exons[0][0] <= v.gstart and v.gend <= tx.exons[-1][1]
                if inside and (tx is tx0 or (tx.gene2tx(v.gstart) is not None and rng.random() < 0.8)):
                    v2 = Small(gene, tx, v.gstart, v.ref, v.alt)
                    recs[(tx.id, v2.id)] = v2
    if rng.random() < 0.06:
        # a tiny non-coding isoform (4-7 nt: the first bases of the gene's first exon) and a deletion anchored on its third base
        # that removes everything up to its last base (listed for every isoform in which it is exonic)
        from harness.model import seqmodel as sm
        gene = rng.choice(c.ref.genes)
        L = rng.randint(4, 7)
        if gene.txs[0].exons[0][0] == 0 and gene.txs[0].exons[0][1] > L + 3 and not any(t.exons == [(0, L)] for t in gene.txs):
            tiny = sm.Tx(gene.txs[0].id[:-5] + f'{len(gene.txs) + 1:03d}.1', gene, [(0, L)], False)
            gene.txs.append(tiny)
            gs = c.ref.gene_seq(gene)
            for tx in gene.txs:
                if tx.gene2tx(2) is not None and tx.gene2tx(L - 1) is not None and tx.gene2tx(L) is not None or tx is tiny:
                    v2 = Small(gene, tx, 2, gs[2:L], gs[2])
                    recs[(tx.id, v2.id)] = v2
            c.note['tiny_isoform'] = L
    if not recs:
        return False
    vs = sorted(recs.values(), key=lambda v: (v.gene.id, v.gstart, v.gend, v.alt, v.tx.id))
    c.files = [('v1.gvf', 'gSNP', vs)]
    return True


def _mk_dense(rng, c, spec):
    """Hyper-mutated region: 8-24 small records within ~30 nt of one transcript (complexity limits bind,
    pop-collapse triggers); too many haplotypes for the definitional oracle - relational checks only."""
    c.ref = refgen.make_reference(rng, n_genes=1, min_exons=1, max_exons=3, exon_len=(60, 160))
    tx = c.ref.genes[0].txs[0]
    n = rng.randint(spec.get('min_var', 8), spec.get('max_var', 24))
    lo = (tx.cds[0] + 3) if tx.coding else 3
    hi = (tx.cds[1] - 3) if tx.coding else tx.tx_len() - 3
    if hi - lo < 40:
        return False
    centre = rng.randint(lo + 15, hi - 15)
    vs = gvfgen.make_small_variants(rng, c.ref, tx, n, snv_p=rng.choice([0.9, 0.8, 0.6]), mnv_p=0.0,
                                    sigma=rng.choice([5, 8, 12]), centre=centre, max_indel=2)
    vs = [v for v in vs]
    if len(vs) < 6:
        return False
    c.files = [('v1.gvf', 'gSNP', vs)]
    return True


def _rand_as(rng, ref, tx):
    gene = tx.gene
    gs = ref.gene_seq(gene)
    kinds = ['Deletion']
    if len(tx.exons) >= 2:
        kinds += ['Insertion', 'Substitution']
    kind = rng.choice(kinds)
    if kind == 'Deletion':
        i = rng.randrange(len(tx.exons))
        s, e = tx.exons[i]
        if rng.random() < 0.5 and i > 0:
            ds, de = s, e
        else:
            if e - s < 4:
                return None
            ds = rng.randint(s + 1, e - 2)
            de = rng.randint(ds + 1, e - 1) if rng.random() < .7 else e
        if tx.gene2tx(ds) == 0:
            return None
        return ASDel(gene, tx, ds, de, gs[ds], tag=rng.choice(['SE', 'A5SS', 'A3SS']))
    i = rng.randrange(len(tx.exons) - 1)
    intron_s, intron_e = tx.exons[i][1], tx.exons[i + 1][0]
    if intron_e - intron_s < 6:
        return None
    ds = rng.randint(intron_s, intron_e - 3)
    de = rng.randint(ds + 2, intron_e)
    if rng.random() < .3:
        ds, de = intron_s, intron_e
    if kind == 'Insertion':
        anchor = tx.exons[i][1] - 1
        return ASIns(gene, tx, anchor, ds, de, gs[anchor], tag=rng.choice(['RI', 'SE', 'A5SS', 'A3SS']))
    j = rng.choice([i, i + 1])
    s, e = tx.exons[j]
    if tx.gene2tx(s) == 0:
        return None
    return ASSub(gene, tx, s, e, ds, de, gs[s])


def _mk_as(rng, c, spec, nested=False):
    c.ref = refgen.make_reference(rng, n_genes=1, min_exons=2, max_exons=5,
                                  intron_len=(30, 90) if nested else (15, 80))
    tx = c.ref.genes[0].txs[0]
    asv = _rand_as(rng, c.ref, tx)
    if asv is None:
        return False
    small = gvfgen.make_small_variants(rng, c.ref, tx, rng.randint(0, 3), cluster=rng.random() < 0.5)
    if nested:
        if asv.kind == 'Deletion' or asv.de - asv.ds < 8:
            return False
        gs = c.ref.gene_seq(tx.gene)
        nest = {}
        boundary = rng.random() < 0.25      # a nested record may end exactly on the last base of the donor segment
        for _ in range(rng.randint(1, 3)):
            g = rng.randint(asv.ds + 1, asv.de - 3)
            if boundary and rng.random() < 0.5:
                g = asv.de - rng.randint(1, 3)
            v = gvfgen.rand_small(rng, c.ref, tx, g, max_indel=3, snv_p=0.5)
            if v is None or v.gend > asv.de or (v.gend >= asv.de - 1 and not boundary):
                continue
            nest[v.id] = v
        if not nest:
            return False
        small = sorted(list({v.id: v for v in small + list(nest.values())}.values()),
                       key=lambda v: (v.gstart, v.gend, v.alt))
    c.files = [('as.gvf', 'AltSplice', [asv])]
    if small:
        c.files.insert(0, ('v1.gvf', 'gSNP', small))
    return True


def _mk_as_nested_fs(rng, c, spec):
    """Alternative-splicing insertion / substitution whose donor segment carries exactly ONE frameshifting indel, plus 1-2
    small variants in the host transcript downstream of the event (the frame reached through the nested indel has to receive
    the downstream variants too)."""
    c.ref = refgen.make_reference(rng, n_genes=1, coding_p=1.0, sec_p=0.0, nf_p=0.0, min_exons=2, max_exons=4,
                                  intron_len=(30, 90), exon_len=(60, 140))
    tx = c.ref.genes[0].txs[0]
    if not tx.coding:
        return False
    asv = None
    for _ in range(20):
        asv = _rand_as(rng, c.ref, tx)
        if asv is not None and asv.kind != 'Deletion' and asv.de - asv.ds >= 8:
            break
        asv = None
    if asv is None:
        return False
    gs = c.ref.gene_seq(tx.gene)
    g = rng.randint(asv.ds + 1, asv.de - 4)
    k = rng.choice([1, 2])
    if rng.random() < 0.5:
        nested = Small(tx.gene, tx, g, gs[g], gs[g] + ''.join(rng.choice('ACGT') for _ in range(k)))
    else:
        if g + k + 1 >= asv.de - 1:
            return False
        nested = Small(tx.gene, tx, g, gs[g:g + k + 1], gs[g])
    anchor = asv.anchor if asv.kind == 'Insertion' else asv.ge - 1
    ta = tx.gene2tx(anchor)
    if ta is None or ta < _start_index(tx) or ta > tx.cds[1] - 12:
        return False
    host = {}
    for _ in range(rng.randint(1, 2)):
        t = ta + rng.randint(2, 40)
        if t >= tx.tx_len() - 2:
            continue
        v = gvfgen.rand_small(rng, c.ref, tx, tx.tx2gene(t), max_indel=2, snv_p=0.7)
        if v is not None:
            host[v.id] = v
    if not host:
        return False
    small = sorted([nested] + list(host.values()), key=lambda v: (v.gstart, v.gend, v.alt))
    c.files = [('v1.gvf', 'gSNP', small), ('as.gvf', 'AltSplice', [asv])]
    c.cfg.update(rule='trypsin', exception=None)
    return True


def _mk_fs_pair(rng, c, spec):
    """Two COMPENSATING frameshifting indels (+k then -k, or -k then +k; k = 1, 2) 12-90 nt apart inside the CDS with no stop
    codon in the shifted frame between them (the variant path leaves the annotated frame and re-enters it), plus 1-3 small
    variants 30-200 nt downstream of the re-entry point: peptides after the re-entry carry a downstream variant only, and the
    label of such a peptide must not name one of the two indels alone. Half of the cases add a further variant upstream."""
    from harness.model import seqmodel as sm
    c.ref = refgen.make_reference(rng, n_genes=1, coding_p=1.0, sec_p=0.0, nf_p=0.0, min_exons=1, max_exons=3,
                                  intron_len=(30, 90), exon_len=(150, 320))
    tx = c.ref.genes[0].txs[0]
    if not tx.coding or tx.cds[1] - tx.cds[0] < 240:
        return False
    gs = c.ref.gene_seq(tx.gene)
    ts = c.ref.tx_seq(tx)
    k = rng.choice([1, 1, 2])
    for _ in range(40):
        t1 = rng.randint(tx.cds[0] + 6, tx.cds[1] - 150)
        t2 = t1 + rng.randint(12, 90)
        if t2 + k + 2 >= tx.cds[1] - 40:
            continue
        ins_first = rng.random() < 0.5
        ti, td = (t1, t2) if ins_first else (t2, t1)
        g_i, g_d = tx.tx2gene(ti), tx.tx2gene(td)
        # the deleted bases must lie in one exon
        if tx.gene2tx(g_d + k) != td + k or tx.gene2tx(g_d + k + 1) is None:
            continue
        ins = ''.join(rng.choice('ACGT') for _ in range(k))
        # the transcript with both records applied: no stop between the two indels in the frame of the annotated start
        if ins_first:
            m = ts[:ti + 1] + ins + ts[ti + 1:td + 1] + ts[td + 1 + k:]
        else:
            m = ts[:td + 1] + ts[td + 1 + k:ti + 1] + ins + ts[ti + 1:]
        aa = sm.translate(m[tx.cds[0]:])
        stop = aa.find('*')
        if stop != -1 and tx.cds[0] + 3 * stop < t2 + 6:
            continue
        v_ins = Small(tx.gene, tx, g_i, gs[g_i], gs[g_i] + ins)
        v_del = Small(tx.gene, tx, g_d, gs[g_d:g_d + k + 1], gs[g_d])
        break
    else:
        return False
    vs = {v_ins.id: v_ins, v_del.id: v_del}
    for _ in range(rng.randint(1, 3)):
        t = t2 + k + rng.randint(30, 200)
        if t >= tx.cds[1] - 3:
            continue
        v = gvfgen.rand_small(rng, c.ref, tx, tx.tx2gene(t), max_indel=2, snv_p=0.85)
        if v is not None:
            vs[v.id] = v
    if len(vs) < 3:
        return False
    if rng.random() < 0.5:
        t = rng.randint(tx.cds[0] + 3, t1 - 1) if t1 - 1 > tx.cds[0] + 3 else None
        v = gvfgen.rand_small(rng, c.ref, tx, tx.tx2gene(t), max_indel=1, snv_p=0.9) if t is not None else None
        if v is not None:
            vs[v.id] = v
    vs = sorted(vs.values(), key=lambda v: (v.gstart, v.gend, v.alt))
    # overlapping records cannot be combined: keep the pair intact, drop others that touch it
    keep = []
    for v in vs:
        if v in (v_ins, v_del) or all(v.gend < w.gstart or w.gend < v.gstart for w in (v_ins, v_del)):
            keep.append(v)
    if rng.random() < 0.4:
        c.files = [('v1.gvf', 'gINDEL', [v for v in keep if v in (v_ins, v_del)]),
                   ('v2.gvf', 'gSNP', [v for v in keep if v not in (v_ins, v_del)])]
        if not c.files[1][2]:
            return False
    else:
        c.files = [('v1.gvf', 'gSNP', keep)]
    c.cfg['miscleavage'] = rng.choice([0, 1, 2, 2])
    return True


def _mk_paralog(rng, c, spec):
    """Two homologous genes: gene 2 is a copy of gene 1 (own chromosome) that differs by 1-3 substitutions inside the CDS
    (biased to the first 25 codons); the records on gene 2 revert (some of) the differences, so variant peptides of gene 2 EQUAL
    canonical peptides of gene 1 and must be withheld. In half of the cases the length limits sit exactly on such a peptide
    (max_length / min_length == its length, with and without the initiator Met): the canonical pool has to be exact at the
    limits."""
    from harness.model import seqmodel as sm
    c.ref = refgen.make_reference(rng, n_genes=1, coding_p=1.0, sec_p=0.0, nf_p=0.0, min_exons=1, max_exons=3,
                                  intron_len=(30, 90), exon_len=(80, 220))
    g1 = c.ref.genes[0]
    t1 = g1.txs[0]
    if not t1.coding or t1.cds[1] - t1.cds[0] < 90:
        return False
    c.ref.chroms['chr2'] = c.ref.chroms[g1.chrom]
    g2 = sm.Gene('ENSG00000000002.1', 'chr2', g1.start, g1.end, g1.strand, 'GENE2', g1.biotype)
    t2 = sm.Tx('ENST00000002001.1', g2, t1.exons, True, cds=t1.cds, sec=[], cds_start_nf=False, mrna_end_nf=False)
    g2.txs.append(t2)
    c.ref.genes.append(g2)
    ts = c.ref.tx_seq(t1)
    ncod = (t1.cds[1] - t1.cds[0]) // 3
    diffs = {}
    for _ in range(rng.randint(1, 3)):
        ci = rng.randint(1, min(ncod - 1, 25)) if rng.random() < 0.6 else rng.randint(1, ncod - 1)
        t = t1.cds[0] + 3 * ci + rng.randrange(3)
        cur = c.ref.tx_seq(t2)
        alt = rng.choice([b for b in 'ACGT' if b != cur[t]])
        m = cur[:t] + alt + cur[t + 1:]
        cod = m[t1.cds[0] + 3 * ci:t1.cds[0] + 3 * ci + 3]
        if cod in ('TAA', 'TAG', 'TGA') or t in diffs:
            continue
        if sm.translate(cod) == sm.translate(cur[t1.cds[0] + 3 * ci:t1.cds[0] + 3 * ci + 3]):
            continue                     # synonymous: no difference at the peptide level
        c.ref.set_gene_base(g2, t2.tx2gene(t), alt)
        diffs[t] = (ts[t], alt)
    if not diffs:
        return False
    gs2 = c.ref.gene_seq(g2)
    vs = {}
    for t, (orig, alt) in diffs.items():
        if rng.random() < 0.85:
            g = t2.tx2gene(t)
            v = Small(g2, t2, g, gs2[g], orig)
            vs[(t2.id, v.id)] = v
    if not vs:
        return False
    for tx in (t2, t1):
        if rng.random() < 0.35:
            for v in gvfgen.make_small_variants(rng, c.ref, tx, rng.randint(1, 2), snv_p=0.8):
                if all(v.gend < w.gstart or w.gend < v.gstart for (tid, _), w in vs.items() if tid == tx.id):
                    vs[(tx.id, v.id)] = v
    c.files = [('v1.gvf', 'gSNP', sorted(vs.values(), key=lambda v: (v.gene.id, v.gstart, v.gend, v.alt)))]
    c.note['paralog_diffs'] = sorted(diffs)
    if rng.random() < 0.5 and 'max_length' not in (spec.get('cfg') or {}) and 'min_length' not in (spec.get('cfg') or {}):
        # limits exactly on a canonical peptide of gene 1 that covers a difference (N-terminal ones with / without Met)
        lim = limits_of(dict(c.cfg, min_length=5, max_length=60, min_mw=0.))
        prot = c.ref.protein(t1)
        cands = []
        for p, first, _ in dg.digest(prot, lim, nterm_m=False):
            st = prot.find(p)
            if any(st <= (t - t1.cds[0]) // 3 < st + len(p) for t in diffs) and 6 <= len(p) <= 45:
                cands.append((p, first))
        if cands:
            p, first = rng.choice(sorted(cands))
            L = len(p) - (1 if first and rng.random() < 0.6 else 0)
            if rng.random() < 0.7:
                c.cfg['max_length'] = max(L, c.cfg['min_length'])
            else:
                c.cfg['min_length'] = min(L, c.cfg['max_length'])
            c.note['boundary_len'] = L
    return True


def _mk_nf_ends(rng, c, spec):
    """Incomplete CDS (cds_start_NF and / or mRNA_end_NF, 70 % each): 1-3 records on the last bases before the open 3' end (among them
    records ending exactly on the boundary of the final full codon) or on the first codons of the open 5' end, preferring
    substitutions that create K / R / a stop codon (a peptide with a confirmed C-terminus right next to the open end), plus 0-2
    records anywhere."""
    from harness.model import seqmodel as sm
    c.ref = refgen.make_reference(rng, n_genes=1, coding_p=1.0, sec_p=0.1, nf_p=0.7, min_exons=1, max_exons=4, exon_len=(30, 120))
    tx = c.ref.genes[0].txs[0]
    if not tx.coding or not (tx.mrna_end_nf or tx.cds_start_nf):
        return False
    ts_ = c.ref.tx_seq(tx)
    gs_ = c.ref.gene_seq(tx.gene)
    vs = {}
    for _ in range(rng.randint(1, 3)):
        if tx.mrna_end_nf and (not tx.cds_start_nf or rng.random() < 0.65):
            t = tx.cds[1] - rng.choice([1, 2, 3, 4, 4, 4, 5, 6, 7, 8, 9])
        else:
            t = tx.cds[0] + rng.choice([0, 1, 2, 3, 4, 5, 6, 7])
        if not 0 <= t < tx.tx_len():
            continue
        v = gvfgen.rand_small(rng, c.ref, tx, tx.tx2gene(t), max_indel=2, snv_p=0.7)
        if rng.random() < 0.6 and tx.cds[0] <= t < tx.cds[1]:
            c0 = tx.cds[0] + 3 * ((t - tx.cds[0]) // 3)
            g_ = tx.tx2gene(t)
            for b in rng.sample('ACGT', 4):
                cod = ts_[c0:t] + b + ts_[t + 1:c0 + 3]
                if b != ts_[t] and len(cod) == 3 and sm.translate(cod) in 'KR*' and sm.translate(ts_[c0:c0 + 3]) not in 'KR*':
                    v = Small(tx.gene, tx, g_, gs_[g_], b)
                    break
        if v is not None:
            vs[v.id] = v
    if not vs:
        return False
    for v in gvfgen.make_small_variants(rng, c.ref, tx, rng.randint(0, 2)):
        vs.setdefault(v.id, v)
    c.files = [('v1.gvf', 'gSNP', sorted(vs.values(), key=lambda v: (v.gstart, v.gend, v.alt)))]
    return True


def _mk_nc_as(rng, c, spec):
    """NON-CODING transcript (every ATG opens an ORF) with an alternative-splicing record whose length change is mostly not a
    multiple of three, a start codon planted 4-16 nt in front of the event (so that the junction lies in the cleavage product
    of the ORF's first residues) and 1-3 small records 8-90 nt behind the event: peptides behind the junction depend on the
    splicing record without carrying it in their own residues."""
    c.ref = refgen.make_reference(rng, n_genes=1, coding_p=0.0, min_exons=2, max_exons=4, exon_len=(45, 130), intron_len=(20, 70))
    tx = c.ref.genes[0].txs[0]
    if tx.coding:
        return False
    asv = None
    for _ in range(30):
        a = _rand_as(rng, c.ref, tx)
        if a is None:
            continue
        d = -(a.ge - a.gs) if a.kind == 'Deletion' else ((a.de - a.ds) if a.kind == 'Insertion' else (a.de - a.ds) - (a.ge - a.gs))
        t0 = tx.gene2tx(a.anchor) + 1 if a.kind == 'Insertion' else tx.gene2tx(a.gs)
        if t0 is None or t0 < 12:
            continue
        if d % 3 == 0 and rng.random() < 0.8:
            continue
        asv = a
        break
    if asv is None:
        return False
    if rng.random() < 0.85:
        tp = t0 - rng.randint(4, 16)
        if tp >= 0:
            for k, b in enumerate('ATG'):
                c.ref.set_gene_base(tx.gene, tx.tx2gene(tp + k), b)
    g_after = asv.anchor + 1 if asv.kind == 'Insertion' else asv.ge
    after = [t for t in range(tx.tx_len()) if tx.tx2gene(t) >= g_after]
    if not after:
        return False
    vs = {}
    for _ in range(rng.randint(1, 3)):
        t = after[0] + rng.randint(8, 90)
        if t >= tx.tx_len() - 2:
            continue
        v = gvfgen.rand_small(rng, c.ref, tx, tx.tx2gene(t), max_indel=2, snv_p=0.8)
        if v is not None:
            vs[v.id] = v
    if not vs:
        return False
    c.files = [('v1.gvf', 'gSNP', sorted(vs.values(), key=lambda v: (v.gstart, v.gend, v.alt))), ('as.gvf', 'AltSplice', [asv])]
    return True


def _mk_nc_stoploss(rng, c, spec):
    """Non-coding transcript (every ATG opens an ORF) with a planted ORF whose start codon is CREATED by an SNV (start gain) or is
    a reference ATG, followed by one or two in-frame stop codons that SNVs REMOVE (stop loss), with cleavable sequence behind
    each: the read-through peptides need the stop-lost records (and the start-gain record) in their labels."""
    c.ref = refgen.make_reference(rng, n_genes=1, coding_p=0.0, min_exons=1, max_exons=2, exon_len=(150, 220))
    tx = c.ref.genes[0].txs[0]
    if tx.coding or tx.tx_len() < 150:
        return False
    gene = tx.gene

    def setb(i, b):
        c.ref.set_gene_base(gene, tx.tx2gene(i), b)

    def gseq():
        return c.ref.tx_seq(tx)
    s0 = rng.randint(3, 20)
    n_stop = rng.choice([1, 1, 2])
    q1 = s0 + 3 * rng.randint(6, 12)
    q2 = q1 + 3 * rng.randint(6, 12)
    end = (q2 if n_stop == 2 else q1) + 3 * rng.randint(8, 14)
    if end + 3 > tx.tx_len():
        return False
    # scrub stops in the frame of s0 up to `end`, then plant the elements
    for k in range(s0, end, 3):
        while gseq()[k:k + 3] in ('TAA', 'TAG', 'TGA'):
            setb(k + rng.randrange(3), rng.choice('ACGT'))
    # sprinkle K/R codons so that there are cleavage sites
    for k in range(s0 + 6, end - 3, 3):
        if rng.random() < 0.2:
            for j, b in enumerate(rng.choice(['AAA', 'AAG', 'CGT', 'AGA'])):
                setb(k + j, b)
    vs = {}
    start_gain = rng.random() < 0.6
    if start_gain:
        x = rng.choice('ACT')
        for j, b in enumerate('AT' + x):
            setb(s0 + j, b)
        v = Small(gene, tx, tx.tx2gene(s0 + 2), c.ref.gene_seq(gene)[tx.tx2gene(s0 + 2)], 'G')
        vs[v.id] = v
    else:
        for j, b in enumerate('ATG'):
            setb(s0 + j, b)
    for q in ([q1, q2] if n_stop == 2 else [q1]):
        stop = rng.choice(['TAA', 'TAG', 'TGA'])
        for j, b in enumerate(stop):
            setb(q + j, b)
        pos = rng.choice([0, 0, 1, 2])
        alts = [b for b in 'ACGT' if b != stop[pos] and (stop[:pos] + b + stop[pos + 1:]) not in ('TAA', 'TAG', 'TGA')]
        g = tx.tx2gene(q + pos)
        v = Small(gene, tx, g, c.ref.gene_seq(gene)[g], rng.choice(alts))
        vs[v.id] = v
    # a terminating stop after `end` so that the ORF closes
    for j, b in enumerate('TAA'):
        setb(end + j, b)
    # one further SNV somewhere behind the first stop (another variant in the read-through peptides)
    if rng.random() < 0.7:
        t = rng.randint(q1 + 4, end - 2)
        v = gvfgen.rand_small(rng, c.ref, tx, tx.tx2gene(t), max_indel=1, snv_p=1.0)
        if v is not None:
            vs[v.id] = v
    c.files = [('v1.gvf', 'gSNP', sorted(vs.values(), key=lambda v: (v.gstart, v.gend, v.alt)))]
    c.cfg.update(rule='trypsin', exception=None)
    return True


def _mk_as_nested(rng, c, spec):
    return _mk_as(rng, c, spec, nested=True)


def _mk_fusion(rng, c, spec, with_var=False):
    c.ref = refgen.make_reference(rng, n_genes=2, isoforms=(1, 2) if rng.random() < 0.3 else (1, 1),
                                  n_chroms=rng.randint(1, 2), sec_p=0.35)
    g1, g2 = c.ref.genes
    if rng.random() < 0.5:
        g1, g2 = g2, g1
    d, a = rng.choice(g1.txs), rng.choice(g2.txs)
    dgs, ags = c.ref.gene_seq(g1), c.ref.gene_seq(g2)
    intronic_d = rng.random() < 0.25 and len(d.exons) > 1
    intronic_a = rng.random() < 0.25 and len(a.exons) > 1
    if intronic_d:
        i = rng.randrange(len(d.exons) - 1)
        dpos = rng.randint(d.exons[i][1] + 1, d.exons[i + 1][0])     # last included base is intronic
    else:
        j = rng.randint(1, d.tx_len())
        if rng.random() < 0.3:       # exon ends are the typical breakpoints
            j = rng.choice([sum(e - s for s, e in d.exons[:k + 1]) for k in range(len(d.exons))])
        dpos = d.tx2gene(j - 1) + 1
    if intronic_a:
        i = rng.randrange(len(a.exons) - 1)
        apos = rng.randint(a.exons[i][1], a.exons[i + 1][0] - 1)
    else:
        k = rng.randint(0, a.tx_len() - 1)
        if rng.random() < 0.3:
            k = rng.choice([sum(e - s for s, e in a.exons[:q]) for q in range(len(a.exons))])
        apos = a.tx2gene(k)
    if d.sec and not intronic_d and rng.random() < 0.5:
        # breakpoint right behind (or inside) an annotated Sec codon of the donor: the codon ends exactly at the breakpoint
        j = rng.choice(d.sec) + rng.choice([3, 3, 3, 2, 4, 6])
        if 1 <= j <= d.tx_len():
            dpos = d.tx2gene(j - 1) + 1
    if d.coding and not d.cds_start_nf and not intronic_d and rng.random() < 0.12:
        # breakpoint inside / right behind the donor's start codon: 1-4 bases from the first start-codon base are kept (with two
        # kept bases the codon is completed by the acceptor: a start codon only if the first acceptor base is G)
        j = d.cds[0] + rng.choice([1, 2, 2, 2, 3, 3, 4])
        if 1 <= j <= d.tx_len():
            dpos = d.tx2gene(j - 1) + 1
            c.note['fusion_in_start_codon'] = j - d.cds[0]
    ref_base = dgs[min(dpos, len(dgs) - 1)]
    fus = Fusion(g1, d, dpos, g2, a, apos, ref_base)
    c.files = [('fusion.gvf', 'Fusion', [fus])]
    if with_var:
        vs = {}
        for tx, gs_ in ((d, dgs), (a, ags)):
            centre = None
            if rng.random() < 0.6:     # cluster near the breakpoint
                g = (dpos - 1) if tx is d else apos
                centre = tx.gene2tx(g)
            for v in gvfgen.make_small_variants(rng, c.ref, tx, rng.randint(0, 3), centre=centre):
                vs[(tx.id, v.id)] = v
            # intronic records near an intronic breakpoint
            if (tx is d and intronic_d) or (tx is a and intronic_a):
                for _ in range(rng.randint(0, 2)):
                    g = (dpos - 1 - rng.randint(0, 6)) if tx is d else (apos + rng.randint(0, 6))
                    if tx.gene2tx(g) is None:
                        v = gvfgen.rand_small(rng, c.ref, tx, g, max_indel=2)
                        if v is not None:
                            vs[(tx.id, v.id)] = v
        if vs:
            c.files.insert(0, ('v1.gvf', 'gSNP', sorted(vs.values(), key=lambda v: (v.gene.id, v.gstart, v.gend, v.alt))))
    return True


def _mk_fusion_adj(rng, c, spec):
    """Fusion with a pair of ADJACENT small variants (merged into one MNV by --max-adjacent-as-mnv) next to the breakpoint: in the
    donor just upstream of it, or in the acceptor just downstream, so that junction-spanning peptides carry both."""
    if not _mk_fusion(rng, c, spec, with_var=rng.random() < 0.5):
        return False
    fus = [r for r in c.recs() if isinstance(r, Fusion)][0]
    d, a = fus.tx, fus.acc_tx
    side = rng.choice(['donor', 'donor', 'acceptor'])
    pair = []
    if side == 'donor':
        b = d.gene2tx(fus.dpos - 1)
        if b is None or b < 12:
            return False
        t = b - rng.randint(1, 9)
        tx = d
    else:
        k = a.gene2tx(fus.apos)
        if k is None or k + 14 > a.tx_len():
            return False
        t = k + rng.randint(1, 9)
        tx = a
    gs = c.ref.gene_seq(tx.gene)
    for tt in (t - 1, t):
        g = tx.tx2gene(tt)
        refb = gs[g]
        pair.append(Small(tx.gene, tx, g, refb, rng.choice([x for x in 'ACGT' if x != refb])))
    if pair[1].gstart != pair[0].gstart + 1:
        return False          # the two positions are separated by an intron
    smalls = {(r.tx.id, r.id): r for r in c.recs() if isinstance(r, Small)}
    for v in pair:
        smalls[(v.tx.id, v.id)] = v
    vs = sorted(smalls.values(), key=lambda v: (v.gene.id, v.gstart, v.gend, v.alt))
    c.files = [('v1.gvf', 'gSNP', vs)] + [f for f in c.files if f[1] == 'Fusion']
    return True


def _mk_fusion_var(rng, c, spec):
    return _mk_fusion(rng, c, spec, with_var=True)


def _mk_circ(rng, c, spec, with_var=False, start_p=0.45, small_ref=False):
    if small_ref:
        c.ref = refgen.make_reference(rng, n_genes=1, coding_p=0.3, min_exons=1, max_exons=3, exon_len=(24, 70))
    else:
        c.ref = refgen.make_reference(rng, n_genes=1, min_exons=2, max_exons=5, exon_len=(12, 90))
    tx = c.ref.genes[0].txs[0]
    recs = []
    for _ in range(rng.randint(1, 2)):
        if rng.random() < 0.15 and len(tx.exons) > 1:      # ciRNA: one intron
            i = rng.randrange(len(tx.exons) - 1)
            s, e = tx.exons[i][1], tx.exons[i + 1][0]
            rec = Circ(tx.gene, tx, [(s, e)], introns=[1])
        else:
            n = rng.randint(1, len(tx.exons))
            i0 = rng.randint(0, len(tx.exons) - n)
            rec = Circ(tx.gene, tx, tx.exons[i0:i0 + n])
        if all(r.id != rec.id for r in recs):
            recs.append(rec)
    c.files = [('circ.gvf', 'circRNA', recs)]
    if with_var:
        frags = [f for r in recs for f in r.frags]
        vs = {}
        if rng.random() < start_p:
            # a multi-base record (deletion or MNV) that begins on the base in front of a start codon of the circle and reaches into
            # it; the codon in front of the ATG mostly reads K / R (planted before any record is made), so that the ORF's first node
            # starts at the ATG: in a circular molecule the ORF opened there meets the record again one lap later
            gs_ = c.ref.gene_seq(tx.gene)
            atgs = [g for s_, e_ in frags for g in range(s_ + 3, e_ - 3) if gs_[g:g + 3] == 'ATG']
            if atgs:
                g = rng.choice(atgs)
                tg = tx.gene2tx(g)
                # never edit the genome inside (or next to) an annotated CDS: the reference must stay a consistent annotation
                if rng.random() < 0.7 and not (tx.coding and tg is not None and tx.cds[0] - 3 <= tg <= tx.cds[1] + 6):
                    for k_, b_ in enumerate(rng.choice(['AAG', 'AAA', 'AGA', 'CGT'])):
                        c.ref.set_gene_base(tx.gene, g - 3 + k_, b_)
                    gs_ = c.ref.gene_seq(tx.gene)
                if rng.random() < 0.6:
                    k = rng.choice([1, 2])
                    v = Small(tx.gene, tx, g - 1, gs_[g - 1:g + k], gs_[g - 1])
                else:
                    alt = ''.join(rng.choice('ACGT') for _ in range(2))
                    v = Small(tx.gene, tx, g - 1, gs_[g - 1:g + 1], alt) if alt != gs_[g - 1:g + 1] else None
                if v is not None:
                    vs[v.id] = v
                    c.note['circ_start_codon_record'] = v.id
        for _ in range(rng.randint(1, 4)):
            s, e = rng.choice(frags)
            g = rng.randint(s, e - 1)
            if rng.random() < 0.3:
                g = rng.choice([s, s + 1, s + 2, s + 3, e - 1, e - 2])
            v = gvfgen.rand_small(rng, c.ref, tx, g, max_indel=3)
            if v is not None and v.gend <= e:
                vs[v.id] = v
        if rng.random() < 0.3:
            for v in gvfgen.make_small_variants(rng, c.ref, tx, rng.randint(1, 2)):
                vs[v.id] = v
        if vs:
            c.files.insert(0, ('v1.gvf', 'gSNP', sorted(vs.values(), key=lambda v: (v.gstart, v.gend, v.alt))))
    return True


def _mk_circ_var(rng, c, spec):
    return _mk_circ(rng, c, spec, with_var=True)


def _mk_circ_start(rng, c, spec):
    """Short circles (1-3 exons of 24-70 nt, mostly non-coding hosts: an ORF often stays open for a whole lap) that always carry a
    multi-base record reaching into one of their start codons from the base in front of it."""
    ok = _mk_circ(rng, c, spec, with_var=True, start_p=1.0, small_ref=True)
    return ok and 'circ_start_codon_record' in c.note


def _mk_units(rng, c, spec):
    """Several processing units on the same transcripts: 2-3 genes, each transcript may carry small variants (main call),
    1-2 fusions as donor with different breakpoints and 1-2 circRNAs; small variants lie up- and downstream of the breakpoints
    and inside the circles, so the per-unit variant filters all have work to do on a shared record pool."""
    c.ref = refgen.make_reference(rng, n_genes=rng.randint(2, 3), min_exons=2, max_exons=4, exon_len=(30, 90),
                                  coding_p=0.6, sec_p=0.1, nf_p=0.1, n_chroms=rng.randint(1, 2))
    genes = c.ref.genes
    small, fus, circ = {}, [], []
    for gene in genes:
        tx = gene.txs[0]
        gs = c.ref.gene_seq(gene)
        if rng.random() < 0.85:
            for v in make_small(rng, c.ref, tx, rng.randint(1, 4)):
                small[(tx.id, v.id)] = v
        if rng.random() < 0.6:
            others = [g for g in genes if g is not gene]
            prev_dpos = None
            for _ in range(rng.randint(1, 2)):
                acc = rng.choice(others).txs[0]
                j = rng.randint(max(6, (tx.cds[0] + 6) if tx.coding else 6), tx.tx_len() - 1)
                dpos = tx.tx2gene(j - 1) + 1
                if prev_dpos is not None and rng.random() < 0.5:
                    dpos = prev_dpos       # one donor breakpoint joined to two acceptors / acceptor positions
                prev_dpos = dpos
                apos = acc.tx2gene(rng.randint(0, max(0, acc.tx_len() - 10)))
                f = Fusion(gene, tx, dpos, acc.gene, acc, apos, gs[min(dpos, len(gs) - 1)])
                if all(x.id != f.id for x in fus):
                    fus.append(f)
        if rng.random() < 0.6:
            for _ in range(rng.randint(1, 2)):
                n = rng.randint(1, len(tx.exons))
                i0 = rng.randint(0, len(tx.exons) - n)
                cr = Circ(gene, tx, tx.exons[i0:i0 + n])
                if all(x.id != cr.id for x in circ):
                    circ.append(cr)
    if not small or not (fus or circ):
        return False
    vs = sorted(small.values(), key=lambda v: (v.gene.id, v.gstart, v.gend, v.alt))
    c.files = [('v1.gvf', 'gSNP', vs)]
    if fus:
        c.files.append(('fusion.gvf', 'Fusion', fus))
    if circ:
        c.files.append(('circ.gvf', 'circRNA', circ))
    return True


# codons one SNV away from a target residue, by base position (used by the cleavage-context stratum)
def _codons_one_snv_from(target_codons):
    out = []
    for t in target_codons:
        for k in range(3):
            for b in 'ACGT':
                if b != t[k]:
                    c = t[:k] + b + t[k + 1:]
                    if c not in ('TAA', 'TAG', 'TGA') and c not in target_codons:
                        out.append((c, k, t[k]))
    return out


def _mk_ctx(rng, c, spec):
    """Cleavage-context stratum: the CDS of a single-isoform coding transcript gets planted motifs around which one SNV creates
    or removes a cleavage site THROUGH ITS CONTEXT - the residue before K|P / R|P becomes W / M (trypsin cuts WK|P and MR|P),
    the P after K / R is replaced or created, a K / R is created or removed - and 1-3 further records lie within ~40 nt
    downstream, so that the peptides behind the changed site carry other variants too."""
    from harness.model.seqmodel import translate
    c.ref = refgen.make_reference(rng, n_genes=1, coding_p=1.0, sec_p=0.0, nf_p=0.0, min_exons=1, max_exons=3,
                                  exon_len=(70, 160))
    tx = c.ref.genes[0].txs[0]
    if not tx.coding:
        return False
    gene = tx.gene
    n_cod = (tx.cds[1] - tx.cds[0]) // 3
    if n_cod < 16:
        return False
    vs = {}
    kind = rng.choice(['p2-gain', 'p2-gain', 'p2-gain', 'p1prime', 'p1'])
    k0 = rng.randint(3, n_cod - 10)
    base = tx.cds[0] + 3 * k0

    def plant(codon_index, codon):
        for j, b in enumerate(codon):
            c.ref.set_gene_base(gene, tx.tx2gene(tx.cds[0] + 3 * codon_index + j), b)
    K, R, P = ['AAA', 'AAG'], ['CGT', 'CGC', 'CGA', 'CGG', 'AGA', 'AGG'], ['CCT', 'CCC', 'CCA', 'CCG']
    if kind == 'p2-gain':
        if rng.random() < 0.5:
            cod, pos, newb = rng.choice(_codons_one_snv_from(['TGG']))     # X -> W before K P
            plant(k0, cod); plant(k0 + 1, rng.choice(K)); plant(k0 + 2, rng.choice(P))
        else:
            cod, pos, newb = rng.choice(_codons_one_snv_from(['ATG']))     # X -> M before R P
            plant(k0, cod); plant(k0 + 1, rng.choice(R)); plant(k0 + 2, rng.choice(P))
        t = base + pos
    elif kind == 'p1prime':
        plant(k0 + 1, rng.choice(K + R))
        if rng.random() < 0.5:
            cod, pos, newb = rng.choice(_codons_one_snv_from(P))           # X -> P after K/R: site lost
            plant(k0 + 2, cod)
        else:
            cod = rng.choice(P)                                            # P -> X after K/R: site gained
            pos = rng.choice([0, 1])
            newb = rng.choice([b for b in 'ACGT' if b != cod[pos]])
            plant(k0 + 2, cod)
        t = base + 6 + pos
    else:
        if rng.random() < 0.5:
            cod, pos, newb = rng.choice(_codons_one_snv_from(K + R))       # X -> K/R: site gained
            plant(k0 + 1, cod)
        else:
            cod = rng.choice(K + R)
            pos = rng.choice([0, 1])
            newb = rng.choice([b for b in 'ACGT' if b != cod[pos]])
            plant(k0 + 1, cod)
        t = base + 3 + pos
    # planting may have created stop codons in frame? (planted codons are never stops); keep the rest of the CDS as it was
    g = tx.tx2gene(t)
    gs = c.ref.gene_seq(gene)
    v0 = Small(gene, tx, g, gs[g], newb)
    if translate(c.ref.tx_seq(tx)[tx.cds[0]:tx.cds[1]]).count('*'):
        return False
    vs[v0.id] = v0
    for _ in range(rng.randint(1, 3)):
        t2 = t + rng.randint(4, 45)
        if t2 >= tx.cds[1] - 3:
            continue
        v = gvfgen.rand_small(rng, c.ref, tx, tx.tx2gene(t2), max_indel=2, snv_p=0.75)
        if v is not None:
            vs[v.id] = v
    if rng.random() < 0.3:
        t2 = t - rng.randint(4, 30)
        if t2 > tx.cds[0] + 3:
            v = gvfgen.rand_small(rng, c.ref, tx, tx.tx2gene(t2), max_indel=2, snv_p=0.75)
            if v is not None:
                vs[v.id] = v
    if len(vs) < 2:
        return False
    c.cfg['rule'] = 'trypsin'
    c.cfg['exception'] = rng.choice([None, None, 'auto'])
    c.files = [('v1.gvf', 'gSNP', sorted(vs.values(), key=lambda v: (v.gstart, v.gend, v.alt)))]
    c.note = {'ctx_kind': kind}
    return True


def make_small(rng, ref, tx, n):
    return gvfgen.make_small_variants(rng, ref, tx, n, cluster=rng.random() < 0.3, mnv_p=0.0, max_indel=2)


# ------------------------------------------------------------------------------------------
# backbones from the object model

def _start_index(tx):
    return (tx.cds[0] if tx.coding else 0) + 3


def _is_start_anchor(tx, v):
    """Pure insertion/deletion anchored on the third base of the start codon (first 3 nt of a non-coding
    transcript) of ITS OWN transcript: the tool converts such a record in place (end inclusion)."""
    ts = tx.gene2tx(v.gstart)
    return ts is not None and v.kind == 'INDEL' and ts == _start_index(tx) - 1


def _small_edit(tx, v, off=0, lo=None, hi=None, side=None):
    """Edit of a Small record on the spliced transcript (tx coordinates + off)."""
    ts = tx.gene2tx(v.gstart)
    tl = tx.gene2tx(v.gend - 1)
    if ts is None or tl is None:
        return None
    te = tl + 1
    spans_junction = (te - ts) != (v.gend - v.gstart)
    if te <= ts:
        return None
    cls = {'SNV': 'S', 'INDEL': 'I', 'MNV': 'M'}[v.kind]
    must = not spans_junction
    si = _start_index(tx)
    is_pure_indel = v.kind == 'INDEL'
    if ts < si and not (ts == si - 1 and is_pure_indel):
        must = False
    if tx.coding and tx.mrna_end_nf and ts < tx.cds[1] and te > tx.cds[1] - 3:
        must = False
    alt = v.alt
    return orc.Edit(ts + off, te + off, alt, [v.id], cls, must=must, side=side,
                    tag='start-anchor' if _is_start_anchor(tx, v) else None)


def _nested_alternatives(ref, tx, donor_gene, ds, de, smalls):
    """All ways of applying non-overlapping small records inside the donor gene interval [ds, de):
    [(donor_sequence, ids, strict)]; strict = records pairwise separated by >= 1 base."""
    gs = ref.gene_seq(donor_gene)
    inside = [v for v in smalls if v.gene is donor_gene and v.gstart >= ds and v.gend <= de]
    inside.sort(key=lambda v: (v.gstart, v.gend, v.alt))
    out = []
    donor = gs[ds:de]
    for k in range(0, len(inside) + 1):
        for comb in itertools.combinations(inside, k):
            if any(a.gend > b.gstart for a, b in zip(comb, comb[1:])):
                continue
            strict = all(a.gend < b.gstart for a, b in zip(comb, comb[1:])) and all(v.gend < de - 1 for v in comb)
            s = donor
            for v in reversed(comb):
                s = s[:v.gstart - ds] + v.alt + s[v.gend - ds:]
            out.append((s, [v.id for v in comb], strict, comb))
    return out


def main_backbone(ref, tx, recs) -> orc.Backbone:
    seq = ref.tx_seq(tx)
    bb = orc.Backbone(tx.id, seq, 'main', tx)
    bb.coding = tx.coding
    bb.known_start = tx.cds[0] if tx.coding else None
    bb.sec = list(tx.sec)
    bb.cds_start_nf = tx.cds_start_nf
    bb.end_nf = tx.coding and tx.mrna_end_nf
    si = _start_index(tx)
    smalls = [r for r in recs if isinstance(r, Small) and r.tx is tx]
    for v in smalls:
        e = _small_edit(tx, v)
        if e is not None:
            bb.add(e)

    def nf_block(ts, te):
        return tx.coding and tx.mrna_end_nf and ts < tx.cds[1] and te > tx.cds[1] - 3

    for r in recs:
        if r.tx is not tx:
            continue
        if isinstance(r, ASDel):
            ts, tl = tx.gene2tx(r.gs), tx.gene2tx(r.ge - 1)
            if ts is None or tl is None:
                continue
            te = tl + 1
            must = (ts - 1) >= si and not nf_block(ts - 1, te) and ts > 0
            bb.add(orc.Edit(ts, te, '', [r.id], 'A', must=must, cstart=ts - 1))
        elif isinstance(r, ASIns):
            ta = tx.gene2tx(r.anchor)
            if ta is None:
                continue
            alts = _nested_alternatives(ref, tx, r.donor_gene, r.ds, r.de, smalls)
            for donor, ids, strict, comb in alts:
                must = ta >= si and not nf_block(ta, ta + 1) and strict
                bb.add(orc.Edit(ta, ta + 1, seq[ta] + donor, [r.id] + ids, 'A', must=must,
                                tag='nested-donor' if len(alts) > 1 else None))
        elif isinstance(r, ASSub):
            ts, tl = tx.gene2tx(r.gs), tx.gene2tx(r.ge - 1)
            if ts is None or tl is None:
                continue
            te = tl + 1
            alts = _nested_alternatives(ref, tx, r.donor_gene, r.ds, r.de, smalls)
            for donor, ids, strict, comb in alts:
                must = ts >= si and not nf_block(ts, te) and strict
                bb.add(orc.Edit(ts, te, donor, [r.id] + ids, 'A', must=must,
                                tag='nested-donor' if len(alts) > 1 else None))
    return bb


def fusion_backbone(ref, rec: Fusion, recs):
    d, a = rec.tx, rec.acc_tx
    dgs, ags = ref.gene_seq(d.gene), ref.gene_seq(a.gene)
    dseq, aseq = ref.tx_seq(d), ref.tx_seq(a)
    b = rec.dpos - 1                       # last included donor gene base
    if b < d.exons[0][0]:
        return None
    if d.gene2tx(b) is not None:
        j = d.gene2tx(b) + 1
        left = ''
        left_g0 = None
    else:
        ups = [e for s, e in d.exons if e <= b]
        if not ups:
            return None
        e_up = max(ups)
        j = d.gene2tx(e_up - 1) + 1
        left = dgs[e_up:rec.dpos]
        left_g0 = e_up
    if rec.apos >= a.exons[-1][1]:
        return None
    if a.gene2tx(rec.apos) is not None:
        k = a.gene2tx(rec.apos)
        right = ''
    else:
        downs = [s for s, e in a.exons if s > rec.apos]
        if not downs:
            return None
        s_dn = min(downs)
        k = a.gene2tx(s_dn)
        right = ags[rec.apos:s_dn]
    seq = dseq[:j] + left + right + aseq[k:]
    J = j + len(left) + len(right)
    bb = orc.Backbone(rec.id, seq, 'fusion', d)
    bb.coding = d.coding
    bb.known_start = d.cds[0] if d.coding else None
    bb.cds_start_nf = d.cds_start_nf
    bb.end_nf = a.mrna_end_nf
    bb.considered = j >= _start_index(d)
    bb.sec = [c for c in d.sec if c + 3 <= j]
    bb.sec_may = [J + (c - k) for c in a.sec if c >= k]
    bb.atg_must_end = j
    bb.atg_may_end = J
    bb.ref_seq, bb.ref_known_start, bb.ref_sec, bb.ref_coding = dseq, bb.known_start, list(d.sec), d.coding
    bb.note = {'j': j, 'k': k, 'left': len(left), 'right': len(right)}
    for v in recs:
        if not isinstance(v, Small):
            continue
        if v.tx is d:
            e = _small_edit(d, v, side=1)
            if e is not None and e.end <= j:
                if e.end >= j:
                    e.must = False
                bb.add(e)
            elif left and left_g0 is not None and v.gstart >= left_g0 and v.gend <= rec.dpos:
                off = j + (v.gstart - left_g0)
                bb.add(orc.Edit(off, off + len(v.ref), v.alt, [v.id], {'SNV': 'S', 'INDEL': 'I', 'MNV': 'M'}[v.kind],
                                must=v.gend < rec.dpos and v.gstart > left_g0, side=1))
        if v.tx is a:
            e = _small_edit(a, v, side=2)
            if e is not None and e.start >= k and d is not a:
                e2 = orc.Edit(e.start - k + J, e.end - k + J, e.alt, e.ids, e.cls, must=e.start > k, side=2, tag=e.tag)
                # start-codon / NF rules of the acceptor transcript do not apply inside a fusion
                spans = (e.end - e.start) != (v.gend - v.gstart)
                if spans:
                    e2.must = False
                bb.add(e2)
            elif right and v.gstart >= rec.apos and e is None and a.gene2tx(v.gstart) is None \
                    and v.gend <= rec.apos + len(right):
                off = j + len(left) + (v.gstart - rec.apos)
                bb.add(orc.Edit(off, off + len(v.ref), v.alt, [v.id], {'SNV': 'S', 'INDEL': 'I', 'MNV': 'M'}[v.kind],
                                must=v.gstart > rec.apos and v.gend < rec.apos + len(right), side=2))
    return bb


def circ_backbone(ref, rec: Circ, recs):
    tx = rec.tx
    gs = ref.gene_seq(tx.gene)
    seq = ''.join(gs[s:e] for s, e in rec.frags)
    bb = orc.Backbone(rec.id, seq, 'circ', tx)
    bb.circular = True
    bb.coding = False
    tseq = ref.tx_seq(tx)
    bb.ref_seq, bb.ref_known_start, bb.ref_sec, bb.ref_coding = tseq, (tx.cds[0] if tx.coding else None), \
        list(tx.sec), tx.coding
    off = 0
    offs = []
    for s, e in rec.frags:
        offs.append((s, e, off))
        off += e - s
    for c in tx.sec:
        g = tx.tx2gene(c)
        for s, e, o in offs:
            if s <= g and g + 3 <= e:
                bb.sec_may.append(o + g - s)
    for v in recs:
        if not isinstance(v, Small) or v.tx is not tx:
            continue
        for idx, (s, e, o) in enumerate(offs):
            if v.gstart >= s and v.gend <= e:
                is_intron = (idx + 1) in rec.introns
                must = v.gstart >= s + 4 and not is_intron and v.gend < e
                bb.add(orc.Edit(o + v.gstart - s, o + v.gend - s, v.alt, [v.id],
                                {'SNV': 'S', 'INDEL': 'I', 'MNV': 'M'}[v.kind], must=must,
                                tag='start-anchor' if _is_start_anchor(tx, v) else None))
                break
    return bb


def build_backbones(case: Case):
    ref, recs = case.ref, case.recs()
    bbs = []
    txs_main = []
    for r in recs:
        if isinstance(r, (Small, ASDel, ASIns, ASSub)) and r.tx not in txs_main:
            txs_main.append(r.tx)
    for tx in txs_main:
        bbs.append(main_backbone(ref, tx, recs))
    for r in recs:
        if isinstance(r, Fusion):
            bb = fusion_backbone(ref, r, recs)
            if bb is not None:
                bbs.append(bb)
        elif isinstance(r, Circ):
            bbs.append(circ_backbone(ref, r, recs))
    return bbs


# ------------------------------------------------------------------------------------------
# running

def limits_of(cfg) -> dg.Limits:
    return dg.Limits(cfg['rule'], cfg['exception'], cfg['miscleavage'], cfg['min_mw'], cfg['min_length'],
                     cfg['max_length'])


def flags_of(cfg) -> orc.Flags:
    return orc.Flags(sect=cfg['sect'], w2f=cfg['w2f'], coding_novel_orf=cfg['coding_novel_orf'],
                     max_adjacent=cfg.get('max_adjacent_as_mnv', 2))


def write_case(case: Case, wd):
    refgen.write_reference(case.ref, wd, utr_includes_stop=True)
    paths = []
    for name, source, recs in case.files:
        p = f'{wd}/{name}'
        gvfgen.write_gvf(p, recs, source)
        paths.append(p)
    return paths


def cv_namespace(case: Case, wd, paths, out='out.fasta', **over):
    cfg = dict(case.cfg)
    cfg.update(over.pop('cfg', {}))
    kw = dict(cleavage_rule=cfg['rule'], cleavage_exception=cfg['exception'], miscleavage=cfg['miscleavage'],
              min_mw=cfg['min_mw'], min_length=cfg['min_length'], max_length=cfg['max_length'],
              selenocysteine_termination=cfg['sect'], w2f_reassignment=cfg['w2f'],
              coding_novel_orf=cfg['coding_novel_orf'], min_nodes_to_collapse=cfg['min_nodes_to_collapse'],
              naa_to_collapse=cfg['naa_to_collapse'], max_adjacent_as_mnv=cfg.get('max_adjacent_as_mnv', 2))
    kw.update(over)
    return drivers.cv_args(wd, paths, out=out, **kw)


def oracle_sets(case: Case, cfg=None, lim=None):
    cfg = cfg or case.cfg
    flags = flags_of(cfg)
    lim = lim or limits_of(cfg)
    bbs = build_backbones(case)
    canon = dg.canonical_pool(case.ref.proteins(), lim)
    must, may = set(), set()
    n_hap = 0
    per = []
    for bb in bbs:
        ev = orc.evaluate(bb, lim, flags)
        per.append((bb, ev))
        must |= ev['must']
        may |= ev['may']
        n_hap += ev['n_hap']
    must -= canon
    return {'must': must, 'may': may, 'canon': canon, 'bbs': bbs, 'per': per, 'n_hap': n_hap,
            'lim': lim, 'flags': flags}


def case_feature(case: Case, o=None):
    txs = {r.tx.id: r.tx for r in case.recs()}
    kinds = sorted({type(r).__name__ + (':' + r.kind if isinstance(r, Small) else '') for r in case.recs()})
    cfg = case.cfg
    f = {
        'stratum': case.stratum,
        'kinds': kinds,
        'nrec': min(len(case.recs()), 8),
        'strand': sorted({t.gene.strand for t in txs.values()}),
        'coding': sorted({t.coding for t in txs.values()}),
        'nf': sorted({(t.cds_start_nf, t.mrna_end_nf) for t in txs.values()}),
        'sec': any(t.sec for t in txs.values()),
        'rule': cfg['rule'], 'exc': str(cfg['exception']), 'misc': cfg['miscleavage'],
        'flags': (cfg['sect'], cfg['w2f'], cfg['coding_novel_orf']),
    }
    return f


def describe(case: Case):
    return {'stratum': case.stratum, 'cfg': case.cfg,
            'genes': [{'id': g.id, 'strand': g.strand, 'len': len(g),
                       'txs': [{'id': t.id, 'exons': t.exons, 'cds': t.cds, 'sec': t.sec,
                                'nf': [t.cds_start_nf, t.mrna_end_nf]} for t in g.txs]} for g in case.ref.genes],
            'records': [r.line() for r in case.recs()][:12]}


# header parsing (own grammar)
def parse_entry(ent):
    f = ent.split('|')
    idx = None
    if f and re.fullmatch(r'\d+', f[-1]):
        idx = int(f[-1])
        f = f[:-1]
    backbone = f[0]
    orf = None
    ids = []
    for x in f[1:]:
        if re.fullmatch(r'ORF\d+', x):
            orf = x
        else:
            ids.append(x)
    return backbone, ids, orf, idx
