"""In-process drivers: build the argparse.Namespace the CLI would build and call the command's
entry function of the repository's *working tree* (imported lazily inside worker processes)."""
from __future__ import annotations
import argparse
import contextlib
import io
import os
import shutil
import tempfile
from pathlib import Path


def case_dir(prefix='case-') -> str:
    root = os.environ.get('VERIF_TMP') or tempfile.gettempdir()
    os.makedirs(root, exist_ok=True)
    return tempfile.mkdtemp(prefix=prefix, dir=root)


def rm(path):
    shutil.rmtree(path, ignore_errors=True)


def read_fasta(path) -> list:
    """[(header, seq)] in file order (own parser)."""
    out = []
    h = None
    seq = []
    with open(path) as fh:
        for line in fh:
            line = line.rstrip('\n')
            if line.startswith('>'):
                if h is not None:
                    out.append((h, ''.join(seq)))
                h = line[1:]
                seq = []
            elif h is not None:
                seq.append(line.strip())
    if h is not None:
        out.append((h, ''.join(seq)))
    return out


def ref_namespace(wd, index_dir=None) -> argparse.Namespace:
    a = argparse.Namespace()
    a.index_dir = Path(index_dir) if index_dir else None
    a.genome_fasta = None if index_dir else Path(wd) / 'genome.fasta'
    a.annotation_gtf = None if index_dir else Path(wd) / 'annotation.gtf'
    a.proteome_fasta = None if index_dir else Path(wd) / 'proteome.fasta'
    a.reference_source = None
    a.invalid_protein_as_noncoding = False
    a.quiet = True
    a.debug_level = 1
    return a


def cleavage_namespace(a, rule='trypsin', exception='auto', miscleavage=2, min_mw=500.,
                       min_length=7, max_length=25):
    a.cleavage_rule = rule
    a.cleavage_exception = exception
    a.miscleavage = miscleavage
    a.min_mw = min_mw
    a.min_length = min_length
    a.max_length = max_length
    return a


def cv_args(wd, gvfs, out='out.fasta', index_dir=None, **kw) -> argparse.Namespace:
    a = ref_namespace(wd, index_dir)
    cleavage_namespace(a)
    a.command = 'callVariant'
    a.input_path = [Path(g) for g in gvfs]
    a.output_path = Path(wd) / out
    a.graph_output_dir = None
    a.backsplicing_only = False
    a.max_adjacent_as_mnv = 2
    a.selenocysteine_termination = False
    a.w2f_reassignment = False
    a.threads = 1
    a.max_variants_per_node = (-1,)
    a.additional_variants_per_misc = (-1,)
    a.min_nodes_to_collapse = 30
    a.naa_to_collapse = 5
    a.noncanonical_transcripts = False
    a.timeout_seconds = 30
    a.coding_novel_orf = False
    a.skip_failed = False
    for k, v in kw.items():
        if not hasattr(a, k):
            raise AttributeError(k)
        setattr(a, k, v)
    return a


@contextlib.contextmanager
def quiet():
    with contextlib.redirect_stdout(io.StringIO()), contextlib.redirect_stderr(io.StringIO()):
        yield


def call_variant(args) -> list:
    """Run callVariant in-process; returns [(header, seq)] of the output FASTA."""
    from moPepGen.cli.call_variant_peptide import call_variant_peptide
    with quiet():
        call_variant_peptide(args)
    return read_fasta(args.output_path)


def read_peptide_table(path) -> list:
    rows = []
    with open(path) as fh:
        header = None
        for line in fh:
            if line.startswith('#'):
                header = line[1:].rstrip('\n').split('\t')
                continue
            f = line.rstrip('\n').split('\t')
            if header and len(f) == len(header):
                rows.append(dict(zip(header, f)))
            else:
                rows.append({'_raw': f})
    return rows


def generate_index(wd, out, rule='trypsin', exception='auto', miscleavage=2, min_mw=500., min_length=7, max_length=25,
                   force=False):
    """generateIndex in-process on the reference files in wd."""
    from moPepGen.cli.generate_index import generate_index as gi
    a = ref_namespace(wd)
    cleavage_namespace(a, rule, exception, miscleavage, min_mw, min_length, max_length)
    a.command = 'generateIndex'
    a.output_dir = Path(out)
    a.gtf_symlink = False
    a.force = force
    with quiet():
        gi(a)
    return Path(out)
