"""C12 - index directory: each cleavage-parameter set maps to its own, faithful pool after any history of
generateIndex / updateIndex / load; data load back equal; version / parameter mismatches are rejected."""
from __future__ import annotations
import argparse
import hashlib
import itertools
import json
import os
import random
import shutil
from pathlib import Path

from harness import common, drivers
from harness.gen import refgen
from harness.model import digest as dg

LEVEL = 'exploration'

# alphabet of cleavage-parameter sets: (rule, cli exception, miscleavage, min_mw, min_length, max_length)
PARAMS = [
    ('trypsin', 'auto', 2, 500., 7, 25),
    ('trypsin', 'trypsin_exception', 2, 500., 7, 25),      # same key as the first one
    ('trypsin', None, 2, 500., 7, 25),
    ('lysc', 'auto', 1, 0., 5, 30),
    ('trypsin', 'auto', 1, 500., 7, 25),
    ('trypsin', 'auto', 2, 500.9, 7, 25),      # differs from the first set only in the fraction of the minimum mass
]
OPS = ['gen', 'genf', 'upd', 'updf', 'load']
# 'stale': environment event, not a command - the recorded versions no longer match the running environment (index written by
# another Python / Biopython / moPepGen); only used in the 'stale' histories below
STALE_VERSIONS = [('python', '0.0.0'), ('biopython', '0.1'), ('mopepgen', '1.2.9')]


def key_of(p):
    lim = dg.Limits(*p)
    return lim.key()


def run_op(op, p, wd, idx):
    """Returns ('ok', value) | ('exit', code) | ('error', type name)."""
    from moPepGen.cli.generate_index import generate_index
    from moPepGen.cli.update_index import update_index
    from moPepGen.cli import common as mcommon
    from moPepGen import params
    rule, exc, misc, mw, mn, mx = p
    try:
        if op in ('gen', 'genf'):
            a = drivers.ref_namespace(wd)
            drivers.cleavage_namespace(a, rule, exc, misc, mw, mn, mx)
            a.command, a.output_dir, a.gtf_symlink, a.force = 'generateIndex', Path(idx), False, op == 'genf'
            with drivers.quiet():
                generate_index(a)
            return ('ok', None)
        if op in ('upd', 'updf'):
            a = argparse.Namespace(command='updateIndex', index_dir=Path(idx), force=op == 'updf', quiet=True, debug_level=1)
            drivers.cleavage_namespace(a, rule, exc, misc, mw, mn, mx)
            with drivers.quiet():
                update_index(a)
            return ('ok', None)
        if op == 'load':
            a = drivers.ref_namespace(wd, index_dir=idx)
            drivers.cleavage_namespace(a, rule, exc, misc, mw, mn, mx)
            # a graph-only parameter must not select a different pool
            cp = params.CleavageParams(enzyme=rule, exception=exc, miscleavage=misc, min_mw=mw, min_length=mn, max_length=mx,
                                       max_variants_per_node=random.choice([7, 3, -1]), naa_to_collapse=random.choice([5, 1]))
            with drivers.quiet():
                genome, anno, proteome, pool = mcommon.load_references(a, load_proteome=True, cleavage_params=cp)
            return ('ok', (genome, anno, proteome, {str(x) for x in pool}))
    except SystemExit as e:
        return ('exit', e.code)
    except Exception as e:
        return ('error', type(e).__name__ + ': ' + str(e)[:120])
    raise ValueError(op)


def dir_state(idx):
    out = {}
    if not os.path.isdir(idx):
        return out
    for f in sorted(os.listdir(idx)):
        p = os.path.join(idx, f)
        if os.path.isfile(p):
            out[f] = hashlib.sha1(open(p, 'rb').read()).hexdigest()
    return out


def run_case(spec):
    rng = random.Random(spec['seed'])
    ref = refgen.make_reference(rng, n_genes=rng.randint(2, 4), coding_p=0.8, sec_p=0.2, nf_p=0.3, max_exons=3, isoforms=(1, 2))
    wd = drivers.case_dir('c12-')
    idx = f'{wd}/index'
    viol = []
    counters = {'histories': 1, 'ops': 0, 'loads_hit': 0, 'loads_miss': 0, 'refusals': 0}
    try:
        refgen.write_reference(ref, wd, leading_x=rng.random() < 0.3)
        prot = [(s, nf) for s, nf in ref.proteins()]
        if os.path.exists(f'{wd}/proteome.fasta'):
            # read back what was written (leading X)
            seqs = dict((h.split('|')[1], s) for h, s in drivers.read_fasta(f'{wd}/proteome.fasta'))
            prot = [(seqs[t.id], t.cds_start_nf) for t in ref.all_txs() if t.coding]
        expect_pool = {}

        def pool_of(p):
            k = key_of(p)
            if k not in expect_pool:
                expect_pool[k] = dg.canonical_pool(prot, dg.Limits(*p))
            return expect_pool[k]
        model = {}            # key -> pool
        exists = False
        hist = spec['history']
        trace = []

        def bad(kind, msg):
            if len(viol) < 6:
                viol.append({'kind': kind, 'msg': f'history {trace}: {msg}'})
        stale = False
        for op, pi in hist:
            p = PARAMS[pi]
            k = key_of(p)
            if op == 'stale':
                if exists:
                    mdp = f'{idx}/metadata.json'
                    md = json.load(open(mdp))
                    field, val = STALE_VERSIONS[pi % len(STALE_VERSIONS)]
                    md['version'][field] = val
                    open(mdp, 'w').write(json.dumps(md))
                    stale = True
                    trace.append(('stale', field, val))
                    counters['stale_events'] = counters.get('stale_events', 0) + 1
                continue
            before = dir_state(idx)
            own_before = set()
            if os.path.exists(f'{idx}/metadata.json'):
                try:
                    for e_ in json.load(open(f'{idx}/metadata.json')).get('canonical_pools', []):
                        cp_ = e_['cleavage_params']
                        if dg.Limits(cp_['enzyme'], cp_['exception'], cp_['miscleavage'], cp_['min_mw'], cp_['min_length'],
                                     cp_['max_length']).key() == k:
                            own_before.add(e_['filename'])
                except (ValueError, KeyError):
                    pass
            nonempty = os.path.isdir(idx) and bool(os.listdir(idx))
            res = run_op(op, p, wd, idx)
            counters['ops'] += 1
            trace.append((op, pi, res[0] if res[0] != 'ok' else 'ok'))
            after = dir_state(idx)
            if stale and op != 'genf':
                # an index whose recorded versions do not match must be rejected, never used or extended
                counters['stale_ops'] = counters.get('stale_ops', 0) + 1
                if op == 'gen':
                    if res != ('exit', 1):
                        bad('generate-on-existing-not-refused', f'{res}')
                elif res[0] == 'ok':
                    bad('mismatching-version-accepted', f'{op} on an index with mismatching recorded version succeeded')
                elif res[0] == 'error' and 'nvalid' not in res[1]:
                    bad('mismatching-version-wrong-error', f'{op}: {res[1]}')
                if after != before:
                    bad('rejected-operation-changed-directory', f'{op}: {sorted(set(after.items()) ^ set(before.items()))[:3]}')
                continue
            if stale and op == 'genf':
                counters['stale_rebuilds'] = counters.get('stale_rebuilds', 0) + 1
                stale = False       # a forced rebuild writes everything anew, including the version record
            if op in ('gen', 'genf'):
                if op == 'gen' and nonempty:
                    counters['refusals'] += 1
                    if res != ('exit', 1):
                        bad('generate-on-existing-not-refused', f'{res}')
                    elif after != before:
                        bad('refused-generate-changed-directory', f'{sorted(set(after.items()) ^ set(before.items()))[:3]}')
                else:
                    if res[0] != 'ok':
                        bad('generate-failed', f'{res}')
                        break
                    model = {k: pool_of(p)}
                    exists = True
            elif op in ('upd', 'updf'):
                if not exists:
                    if res[0] == 'ok':
                        bad('update-on-missing-index-succeeded', '')
                    if os.path.isdir(idx) and os.listdir(idx) and not before:
                        # a failed update must not leave a half-initialised directory behind
                        bad('failed-update-left-files', f'{sorted(os.listdir(idx))}')
                        shutil.rmtree(idx)
                    continue
                if k in model and op == 'upd':
                    counters['refusals'] += 1
                    if res != ('exit', 1):
                        bad('duplicate-update-not-refused', f'{res}')
                    elif after != before:
                        bad('refused-update-changed-directory', '')
                else:
                    if res[0] != 'ok':
                        bad('update-failed', f'{res}')
                        break
                    model[k] = pool_of(p)
                    # pools of other keys must be byte-identical: only the file the metadata (as it was BEFORE the operation)
                    # assigns to these parameters may change
                    own = own_before
                    for f, h in before.items():
                        if f.startswith('canonical_peptides_') and f in after and after[f] != h and f not in own:
                            bad('update-changed-other-pool', f'{f} (files of the updated parameters before the operation: {sorted(own)})')
                    lost = [f for f in before if f not in after]
                    if lost:
                        bad('update-removed-files', f'{lost}')
            else:   # load
                if not exists:
                    if res[0] == 'ok':
                        bad('load-from-missing-index-succeeded', '')
                    continue
                if k in model:
                    counters['loads_hit'] += 1
                    if res[0] != 'ok':
                        bad('load-of-registered-parameters-failed', f'{res}')
                        continue
                    genome, anno, proteome, pool = res[1]
                    want = model[k]
                    diff = [x for x in (pool ^ want) if abs(dg.mass(x) - p[3]) > 1e-6]
                    if diff:
                        bad('loaded-pool-differs', f'params {p}: only loaded {sorted(set(diff) & pool)[:4]} only expected {sorted(set(diff) & want)[:4]}')
                    # reference data equal to what was saved
                    if {c: str(genome[c].seq) for c in genome} != ref.chroms:
                        bad('genome-differs', '')
                    if set(anno.transcripts.keys()) != {t.id for t in ref.all_txs()}:
                        bad('annotation-transcripts-differ', '')
                    else:
                        for t in ref.all_txs():
                            tm = anno.transcripts[t.id]
                            g = t.gene
                            ex = [(int(x.location.start), int(x.location.end)) for x in tm.exon]
                            wantex = sorted((g.start + s, g.start + e) if g.strand == 1 else (g.end - e, g.end - s) for s, e in t.exons)
                            if ex != wantex or bool(tm.is_protein_coding) != t.coding:
                                bad('annotation-model-differs', f'{t.id}: exons {ex} vs {wantex}, coding {tm.is_protein_coding} vs {t.coding}')
                                break
                    if {tid: str(r.seq) for tid, r in proteome.items()} != {t.id: s for t, (s, _) in zip([t for t in ref.all_txs() if t.coding], prot)}:
                        bad('proteome-differs', '')
                    import pickle
                    with open(f'{idx}/coding_transcripts.pkl', 'rb') as fh:
                        if set(pickle.load(fh)) != {t.id for t in ref.all_txs() if t.coding}:
                            bad('coding-transcripts-differ', '')
                else:
                    counters['loads_miss'] += 1
                    if res[0] == 'ok':
                        bad('load-with-unregistered-parameters-succeeded', f'params {p}; registered {sorted(model)}')
            # metadata invariant
            if exists and os.path.exists(f'{idx}/metadata.json'):
                md = json.load(open(f'{idx}/metadata.json'))
                files = [x['filename'] for x in md['canonical_pools']]
                if len(files) != len(set(files)) or len(files) != len(model):
                    bad('metadata-pool-list', f'metadata lists {files}, model has {len(model)} keys')
                for f in files:
                    if not os.path.exists(f'{idx}/{f}'):
                        bad('metadata-names-missing-file', f)
        # ---------- final sweep: EVERY registered parameter set must still load exactly its own pool (whatever happened to the
        # other pools in between), and every other parameter set must still be refused
        if exists and not stale and not viol:
            for p_ in PARAMS:
                k_ = key_of(p_)
                res = run_op('load', p_, wd, idx)
                counters['final_loads'] = counters.get('final_loads', 0) + 1
                if k_ in model:
                    if res[0] != 'ok':
                        bad('load-of-registered-parameters-failed', f'final sweep, params {p_}: {res}')
                    else:
                        pool = res[1][3]
                        diff = [x for x in (pool ^ model[k_]) if abs(dg.mass(x) - p_[3]) > 1e-6]
                        if diff:
                            bad('loaded-pool-differs', f'final sweep, params {p_}: only loaded {sorted(set(diff) & pool)[:4]} '
                                                       f'only expected {sorted(set(diff) & model[k_])[:4]}')
                elif res[0] == 'ok':
                    bad('load-with-unregistered-parameters-succeeded', f'final sweep, params {p_}; registered {sorted(model)}')
        # ---------- tampered versions
        if exists and not viol and not stale and spec.get('tamper', True):
            mdp = f'{idx}/metadata.json'
            orig = open(mdp).read()
            md = json.loads(orig)
            field, val, should_fail = rng.choice([('python', '0.0.0', True), ('biopython', '0.1', True), ('mopepgen', '1.2.9', True),
                                                  ('mopepgen', '1.3.0', False), ('mopepgen', '0.9.9-rc1', True)])
            md['version'][field] = val
            open(mdp, 'w').write(json.dumps(md))
            k0 = next(iter(model))
            p0 = [p for p in PARAMS if key_of(p) == k0][0]
            res = run_op('load', p0, wd, idx)
            counters['tamper_runs'] = 1
            if should_fail and res[0] == 'ok':
                bad('mismatching-version-accepted', f'{field}={val}')
            if should_fail and res[0] == 'error' and 'InvalidIndexError' not in res[1] and 'nvalid' not in res[1]:
                bad('mismatching-version-wrong-error', f'{field}={val}: {res[1]}')
            if not should_fail and res[0] != 'ok':
                bad('valid-version-rejected', f'{field}={val}: {res}')
            res2 = run_op('upd', PARAMS[3], wd, idx)
            if should_fail and res2[0] == 'ok':
                bad('update-with-mismatching-version-accepted', f'{field}={val}')
            open(mdp, 'w').write(orig)
        feat = (tuple(op for op, _ in hist), len({key_of(PARAMS[pi]) for _, pi in hist}), counters['refusals'] > 0,
                counters['loads_hit'] > 0, counters['loads_miss'] > 0)
        return {'nontrivial': counters['ops'] > 0, 'feature': feat, 'violations': viol, 'counters': counters,
                'sample': {'history': [(op, PARAMS[pi]) for op, pi in hist], 'trace': trace, 'registered_keys': [list(k) for k in model]}}
    finally:
        drivers.rm(wd)


def check(rep, tier, seed, specs=None, n_override=None):
    quick = tier == 'quick'
    if specs is None:
        rng = random.Random(common.hash64('c12-plan', seed))
        allh = []
        for L in (2, 3, 4):
            for ops in itertools.product(OPS, repeat=L):
                if ops[0] not in ('gen', 'genf', 'upd', 'load'):
                    continue
                if 'load' not in ops and L > 2:
                    continue
                allh.append(ops)
        fixed = random.Random(12)
        specs = []
        n = n_override or (1000 if quick else 6000)
        for i in range(n):
            r = fixed if i < n // 2 else rng
            ops = r.choice(allh)
            hist = [(op, r.randrange(len(PARAMS))) for op in ops]
            specs.append({'seed': common.hash64('c12', 'fixed' if i < n // 2 else seed, i), 'history': hist})
        # histories with a version-mismatch event between the commands
        ns = max(8, n // 4)
        for i in range(ns):
            r = fixed if i < ns // 2 else rng
            pre = [(r.choice(['gen', 'genf']), r.randrange(len(PARAMS)))]
            if r.random() < 0.4:
                pre.append((r.choice(['upd', 'updf']), r.randrange(len(PARAMS))))
            post = [(r.choice(OPS), r.randrange(len(PARAMS))) for _ in range(r.randint(1, 3))]
            if r.random() < 0.6:
                j = r.randrange(len(post))
                post[j] = ('genf', post[j][1])
                post.insert(j + 1, ('load', post[j][1]))
            specs.append({'seed': common.hash64('c12s', 'fixed' if i < ns // 2 else seed, i),
                          'history': pre + [('stale', r.randrange(3))] + post})
        # a few canonical histories always present
        for h in ([('gen', 0), ('load', 1), ('load', 2)], [('gen', 0), ('upd', 1)], [('gen', 2), ('upd', 0), ('load', 0), ('load', 2)],
                  [('gen', 0), ('gen', 3)], [('gen', 0), ('genf', 3), ('load', 0)], [('gen', 3), ('updf', 3), ('load', 3)],
                  [('upd', 0), ('gen', 0), ('load', 0)], [('gen', 0), ('upd', 3), ('upd', 4), ('load', 3)],
                  [('gen', 0), ('stale', 1), ('load', 0), ('genf', 3), ('load', 3), ('upd', 0), ('load', 0)],
                  [('gen', 2), ('stale', 2), ('upd', 0), ('updf', 2), ('genf', 2), ('load', 2)]):
            specs.append({'seed': common.hash64('c12h', str(h)), 'history': h})
    results, lost = common.shard_run('c12', specs, timeout_s=1500 if quick else 6 * 3600)
    rep.rule = ('operation histories of length 2-4 over {generateIndex, generateIndex --force, updateIndex, updateIndex --force, load_references '
                '--index-dir} x 5 parameter sets (incl. the pair auto / trypsin_exception that denotes one key, and exception None) on a generated '
                'reference, executed in-process and compared after every operation with a dictionary model params-key -> definitional pool: loads return '
                'exactly the model pool or fail, refused operations leave the directory byte-identical, other pools stay byte-identical, metadata lists '
                'exactly the registered pools, genome/annotation/proteome/coding transcripts load back equal; at the end of every history ALL parameter sets are '
                'loaded once more (each registered one must return exactly its own pool, the others must be refused); finally a tampered metadata version must be '
                'rejected. A quarter of the histories contain a version-mismatch event (metadata records another python / biopython / moPepGen '
                'version, as if written by another environment): afterwards load / update / update --force must be rejected without touching the '
                'directory, generateIndex refused, and generateIndex --force must rebuild an index that loads again. non-trivial = history executed; distinct = (operation sequence, #keys, refusal seen, hit/miss loads).')
    rep.absorb(results, lost)
    for k in ('ops', 'loads_hit', 'loads_miss', 'refusals', 'tamper_runs', 'stale_ops', 'stale_rebuilds', 'final_loads'):
        if not rep.counters.get(k):
            rep.inconclusive.append(f'monitor {k} had zero evaluations')
