"""C18 - database bookkeeping conserves peptides: splitFasta partitions by the best source set,
mergeFasta is a union, encodeFasta is invertible through its dictionary, summarizeFasta's totals
agree with the number of peptides and with splitFasta."""
from __future__ import annotations
import argparse
import itertools
import os
import random
from pathlib import Path

from harness import common, drivers, cvengine as cv
from harness.gen import gvfgen
from harness.monitors import cvmon

LEVEL = 'exploration'
INTERNAL = ['NovelORF', 'SECT', 'CodonReassign']


def entry_sources(ent, tx2gene, label_src, group_map):
    """Own derivation of the source set of one header entry."""
    backbone, ids, orf, idx = cv.parse_entry(ent)
    srcs = set()

    def add(s):
        srcs.add(group_map.get(s, s))
    if orf:
        add('NovelORF')
    if backbone.startswith('FUSION-'):
        body = backbone[len('FUSION-'):]
        first, second = body.split('-', 1) if body.count('-') == 1 else (None, None)
        if first is None:
            # transcript ids contain no '-', but be careful
            parts = body.split('-')
            first, second = parts[0], '-'.join(parts[1:])
        tx1, tx2 = first.rsplit(':', 1)[0], second.rsplit(':', 1)[0]
        g1, g2 = tx2gene[tx1], tx2gene[tx2]
        add(label_src[(g1, backbone)])
        for x in ids:
            if x.startswith('1-'):
                add(label_src[(g1, x[2:])])
            elif x.startswith('2-'):
                add(label_src[(g2, x[2:])])
            elif x.startswith('SECT-'):
                add('SECT')
            elif x.startswith('W2F-'):
                add('CodonReassign')
        return srcs
    if backbone.startswith('CIRC-') or backbone.startswith('CI-'):
        tx = backbone.split('-', 2)[1]
        g = tx2gene[tx]
        add(label_src[(g, backbone)])
    else:
        g = tx2gene[backbone]
    for x in ids:
        if x.startswith('SECT-'):
            add('SECT')
        elif x.startswith('W2F-'):
            add('CodonReassign')
        elif x == g:
            continue
        else:
            add(label_src[(g, x)])
    return srcs


def canon(ent):
    """Entry modulo the order of its fields (fusion entries are re-serialised with the ORF id first)."""
    b, ids, orf, idx = cv.parse_entry(ent)
    return (b, tuple(sorted(ids)), orf, idx)


def canon_set(header):
    return {canon(e) for e in header.split(' ')}


def best_key(entries, levels, tx2gene, label_src, group_map):
    best = None
    for ent in entries:
        s = entry_sources(ent, tx2gene, label_src, group_map)
        k = (len(s), sorted(levels[x] for x in s))
        if best is None or k < best[0]:
            best = (k, s)
    return best[1]


def ns(**kw):
    a = argparse.Namespace(quiet=True, debug_level=1, index_dir=None, genome_fasta=None, reference_source=None,
                           invalid_protein_as_noncoding=False)
    for k, v in kw.items():
        setattr(a, k, v)
    return a


def extra_databases(case, wd, rng):
    """Novel-ORF and alt-translation FASTAs for the same reference and cleavage settings (real runs of callNovelORF /
    callAltTranslation), each with probability 1/2; a few sequences of the variant FASTA are additionally written into them
    under entries of their own kind, so that one sequence occurs in several input files (their entries must be united)."""
    from moPepGen.cli.call_novel_orf import call_novel_orf_peptide
    from moPepGen.cli.call_alt_translation import call_alt_translation
    cfg = case.cfg
    novel = alt = None
    if rng.random() < 0.5:
        a = drivers.ref_namespace(wd)
        drivers.cleavage_namespace(a, cfg['rule'], cfg['exception'], cfg['miscleavage'], cfg['min_mw'], cfg['min_length'], cfg['max_length'])
        a.command = 'callNovelORF'
        a.output_path = Path(wd) / 'novel.fasta'
        a.output_orf = None
        a.min_tx_length = 21
        a.orf_assignment = 'max'
        a.coding_novel_orf = rng.random() < 0.5
        a.w2f_reassignment = False
        a.inclusion_biotypes = a.exclusion_biotypes = None
        with drivers.quiet():
            call_novel_orf_peptide(a)
        novel = a.output_path if os.path.exists(a.output_path) else None
    if rng.random() < 0.5 and any(t.coding for t in case.ref.all_txs()):
        a = drivers.ref_namespace(wd)
        drivers.cleavage_namespace(a, cfg['rule'], cfg['exception'], cfg['miscleavage'], cfg['min_mw'], cfg['min_length'], cfg['max_length'])
        a.command = 'callAltTranslation'
        a.output_path = Path(wd) / 'alt.fasta'
        a.selenocysteine_termination = True
        a.w2f_reassignment = True
        with drivers.quiet():
            call_alt_translation(a)
        alt = a.output_path if os.path.exists(a.output_path) else None
    return novel, alt


def inject_shared(path, fa_variant, kind, case, rng):
    """Append up to 3 sequences of the variant FASTA to `path` under fresh entries of the file's own kind."""
    recs = drivers.read_fasta(path)
    have = {s for _, s in recs}
    cands = [s for _, s in fa_variant if s not in have]
    rng.shuffle(cands)
    txs = list(case.ref.all_txs())
    n = 0
    with open(path, 'a') as fh:
        for i, s in enumerate(cands[:rng.randint(1, 3)]):
            tx = rng.choice(txs)
            if kind == 'novel':
                ent = f'{tx.id}|{tx.gene.id}|ORF{rng.randint(1, 3)}|{900 + i}'
            else:
                ent = f'{tx.id}|W2F-{rng.randint(1, max(1, len(s)))}|{900 + i}' if rng.random() < 0.5 else \
                    f'{tx.id}|SECT-{rng.randint(1, 300)}|{900 + i}'
            fh.write(f'>{ent}\n{s}\n')
            n += 1
    return n


SYN_SOURCES = ['gSNP', 'gINDEL', 'sSNV', 'sINDEL', 'RNAEdit', 'gMNV']
AA_SYN = 'ACDEFGHIKLMNPQRSTVWYKR'


def synth_input(rng):
    """G-FASTA for splitFasta: 4-6 sources, each with its own GVF of small records on the transcripts of a generated reference;
    peptides with 1-3 base entries whose 1-3 variant ids come from different sources, so that several entries of one peptide have
    source sets of equal size with crossing ranks; SECT / W2F ids and ORF ids of non-coding transcripts occur as well."""
    from harness.gen import refgen
    ref = refgen.make_reference(rng, n_genes=rng.randint(2, 3), coding_p=0.6, isoforms=(1, 2), min_exons=1, max_exons=3,
                                exon_len=(40, 100))
    c = cv.Case()
    c.ref, c.stratum = ref, 'synth'
    c.cfg = cv.gen_config(rng, 'synth', light=True)
    srcs = rng.sample(SYN_SOURCES, rng.randint(4, 6))
    per_tx = {}
    files = []
    used = set()
    for src in srcs:
        recs = []
        for _ in range(rng.randint(3, 7)):
            tx = rng.choice(list(ref.all_txs()))
            v = gvfgen.rand_small(rng, ref, tx, tx.tx2gene(rng.randrange(tx.tx_len())), max_indel=2,
                                  snv_p=0.2 if 'INDEL' in src else 0.9)
            if v is None or (tx.gene.id, v.id) in used:
                continue
            used.add((tx.gene.id, v.id))
            recs.append(v)
            per_tx.setdefault(tx.id, []).append((v, src))
        if recs:
            files.append((f'{src}.gvf', src, recs))
    # fusion records between any two transcripts - also two transcripts of ONE gene (intragenic fusion)
    fus = []
    all_t = list(ref.all_txs())
    for _ in range(rng.randint(0, 3)):
        t1 = rng.choice(all_t)
        same = [t for t in t1.gene.txs if t is not t1]
        t2 = rng.choice(same) if same and rng.random() < 0.5 else rng.choice(all_t)
        if t2 is t1:
            continue
        gs1 = ref.gene_seq(t1.gene)
        dpos = t1.tx2gene(rng.randrange(3, t1.tx_len())) + 1
        apos = t2.tx2gene(rng.randrange(0, max(1, t2.tx_len() - 3)))
        f_ = gvfgen.Fusion(t1.gene, t1, dpos, t2.gene, t2, apos, gs1[min(dpos, len(gs1) - 1)])
        if all(x.id != f_.id for x in fus):
            fus.append(f_)
    if fus:
        files.append(('Fusion.gvf', 'Fusion', fus))
    rng.shuffle(files)
    c.files = files
    txs = {t.id: t for t in ref.all_txs()}
    fa = []
    seen = set()
    n = 0
    for _ in range(rng.randint(5, 30)):
        seq = ''.join(rng.choice(AA_SYN) for _ in range(rng.randint(6, 20)))
        if seq in seen:
            continue
        seen.add(seq)
        ents = []
        for _ in range(rng.choice([1, 2, 2, 3])):
            if fus and rng.random() < 0.25:
                f_ = rng.choice(fus)
                ids = []
                for side, t_ in ((1, f_.tx), (2, f_.acc_tx)):
                    if per_tx.get(t_.id) and rng.random() < 0.5:
                        v_, _src = rng.choice(per_tx[t_.id])
                        ids.append(f'{side}-{v_.id}')
                n += 1
                fld = [f_.id] + ids
                if not f_.tx.coding:
                    fld.append(f'ORF{rng.randint(1, 3)}')
                ents.append('|'.join(fld + [str(n)]))
                continue
            cand = [t for t in per_tx if per_tx[t]]
            if not cand:
                break
            t = rng.choice(cand)
            vs = rng.sample(per_tx[t], min(len(per_tx[t]), rng.choice([1, 2, 2, 3])))
            ids = [v.id for v, _ in vs]
            if rng.random() < 0.15:
                ids.append(rng.choice([f'SECT-{rng.randint(1, 200)}', f'W2F-{rng.randint(1, 10)}']))
            f = [t] + ids
            if not txs[t].coding:
                f.append(f'ORF{rng.randint(1, 3)}')
            n += 1
            ent = '|'.join(f + [str(n)])
            ents.append(ent)
        if ents:
            fa.append((' '.join(ents), seq))
    return c, fa


def run_case(spec):
    from moPepGen.cli.split_fasta import split_fasta
    from moPepGen.cli.merge_fasta import merge_fasta
    from moPepGen.cli.encode_fasta import encode_fasta
    from moPepGen.cli.summarize_fasta import summarize_fasta
    from moPepGen.cli.decoy_fasta import decoy_fasta
    rng = random.Random(spec['seed'])
    synthetic = spec.get('kind') == 'synth'
    case = None
    if synthetic:
        case, synth_fa = synth_input(rng)
        spec = dict(spec, multi=False)
    else:
        for k in range(6):
            case = cv.build_case({'seed': common.hash64(spec['seed'], k), 'stratum': rng.choice(
                ['small', 'multi', 'as', 'fusion_var', 'circ_var', 'sec', 'multi']),
                'cfg': {'rule': 'trypsin', 'exception': None, 'sect': rng.random() < 0.4, 'w2f': rng.random() < 0.4,
                        'min_length': 5, 'min_mw': 0., 'miscleavage': 2}})
            if case is not None:
                break
        if case is None:
            return {'skipped': True}
        # one GVF per source: small records by kind, others by family
        by_src = {}
        for r in case.recs():
            if r.family == 'small':
                src = {'SNV': 'gSNP', 'INDEL': 'gINDEL', 'MNV': 'gMNV'}[r.kind]
            else:
                src = {'as': 'AltSplice', 'fusion': 'Fusion', 'circ': 'circRNA'}[r.family]
            by_src.setdefault((src, r.family), []).append(r)
        order_files = list(by_src)
        rng.shuffle(order_files)
        case.files = [(f'{src}.gvf', src, by_src[(src, fam)]) for src, fam in order_files]
    wd = drivers.case_dir('c18-')
    viol = []
    counters = {'cases': 1}
    try:
        paths = cv.write_case(case, wd)
        if synthetic:
            fa = synth_fa
            with open(f'{wd}/out.fasta', 'w') as fh:
                for h_, s_ in fa:
                    fh.write(f'>{h_}\n{s_}\n')
            counters['synthetic_cases'] = 1
        else:
            try:
                fa, _ = cvmon.execute(case, wd, paths)
            except Exception:
                # callVariant only PRODUCES the input of this check; its crashes on valid input are decided by C01
                return {'nontrivial': False, 'feature': None, 'counters': {'cases': 1, 'input_generation_crashed': 1}}
        if not fa:
            return {'nontrivial': False, 'feature': None, 'counters': {'cases': 1, 'empty_fasta': 1}}
        novel_fa, alt_fa = extra_databases(case, wd, rng) if spec.get('multi', True) else (None, None)
        n_shared = 0
        if novel_fa is not None and rng.random() < 0.7:
            n_shared += inject_shared(novel_fa, fa, 'novel', case, rng)
        if alt_fa is not None and rng.random() < 0.7:
            n_shared += inject_shared(alt_fa, fa, 'alt', case, rng)
        counters['extra_fastas'] = int(novel_fa is not None) + int(alt_fa is not None)
        orig, origc = {}, {}
        n_multi_file = 0
        for pth in (Path(wd) / 'out.fasta', novel_fa, alt_fa):
            if pth is None:
                continue
            for h, s_ in drivers.read_fasta(pth):
                if s_ in orig and pth != Path(wd) / 'out.fasta':
                    n_multi_file += 1
                orig.setdefault(s_, set()).update(h.split(' '))
                origc.setdefault(s_, set()).update(canon_set(h))
        counters['sequences_in_several_files'] = n_multi_file
        tx2gene = {t.id: t.gene.id for t in case.ref.all_txs()}
        gvf_sources = [src for _, src, _ in case.files]
        label_src = {}
        for _, src, recs in case.files:
            for r in recs:
                label_src.setdefault((r.gene.id, r.id), src)
        # ------------ options
        group_map = {}
        group_arg = None
        if rng.random() < 0.35 and {'gSNP', 'gINDEL'} <= set(gvf_sources):
            group_map = {'gSNP': 'Point', 'gINDEL': 'Point'}
            group_arg = ['Point:gSNP,gINDEL']
        grouped_sources = list(dict.fromkeys(group_map.get(s, s) for s in gvf_sources))
        order_arg = None
        order = list(grouped_sources)
        if rng.random() < 0.5:
            rng.shuffle(order)
            if rng.random() < 0.5:
                ins = [group_map.get(s, s) for s in INTERNAL]
                rng.shuffle(ins)
                order = order + ins[:rng.randint(0, 3)]
                rng.shuffle(order)
            order_arg = ','.join(order)
        for s in INTERNAL:
            s = group_map.get(s, s)
            if s not in order:
                order.append(s)
        levels = {s: i for i, s in enumerate(order)}
        max_groups = rng.choice([1, 1, 2, 3])
        additional = None
        if rng.random() < 0.4 and len(order) >= 2:
            combos = [c for c in itertools.combinations(order, max_groups + 1)]
            rng.shuffle(combos)
            additional = ['-'.join(c) for c in combos[:rng.randint(1, 2)]]
        common_ref = dict(annotation_gtf=Path(wd) / 'annotation.gtf', proteome_fasta=Path(wd) / 'proteome.fasta')
        a = ns(command='splitFasta', gvf=[Path(p) for p in paths], variant_peptides=Path(wd) / 'out.fasta',
               novel_orf_peptides=novel_fa, alt_translation_peptides=alt_fa, output_prefix=Path(wd) / 'split' / 'db',
               order_source=order_arg, group_source=group_arg, max_source_groups=max_groups,
               additional_split=additional, **common_ref)
        os.makedirs(f'{wd}/split', exist_ok=True)
        with drivers.quiet():
            split_fasta(a)
        dbs = {}
        for f in sorted(os.listdir(f'{wd}/split')):
            dbs[f[len('db_'):-len('.fasta')]] = drivers.read_fasta(f'{wd}/split/{f}')
        counters['split_runs'] = 1
        # conservation
        allseqs = [s for recs in dbs.values() for _, s in recs]
        if sorted(allseqs) != sorted(orig):
            viol.append({'kind': 'split-not-a-partition',
                         'msg': f'input {len(orig)} peptides, outputs {len(allseqs)}; lost {sorted(set(orig) - set(allseqs))[:3]} '
                                f'duplicated-or-new {sorted(s for s in set(allseqs) if allseqs.count(s) > 1 or s not in orig)[:3]}'})
        else:
            for key, recs in dbs.items():
                for h, s in recs:
                    if canon_set(h) != origc[s]:
                        viol.append({'kind': 'split-header-entries-changed', 'msg': f'{s}: {sorted(orig[s])} -> {h}'})
                        break
            # assignment by the documented priority (own model)
            for key, recs in dbs.items():
                for h, s in recs:
                    try:
                        srcs = best_key(sorted(orig[s]), levels, tx2gene, label_src, group_map)
                    except KeyError as e:
                        viol.append({'kind': 'model-source-lookup', 'msg': f'{h}: {e}'})
                        break
                    if len(srcs) <= max_groups:
                        want = '-'.join(sorted(srcs, key=lambda x: levels[x]))
                    else:
                        want = 'Remaining'
                        for ad in additional or []:
                            adset = set(ad.split('-'))
                            if adset <= srcs:
                                want = '-'.join(sorted(adset, key=lambda x: levels[x])) + '-additional'
                                break
                    counters['assignments'] = counters.get('assignments', 0) + 1
                    if want != key:
                        viol.append({'kind': 'split-wrong-database',
                                     'msg': f'peptide {s} entries {sorted(orig[s])}: written to {key}, best source set gives {want} '
                                            f'(order {order}, groups {group_map}, max {max_groups}, additional {additional})'})
                        break
        # ------------ merge: union of the split outputs restores the input
        split_files = [Path(wd) / 'split' / f for f in sorted(os.listdir(f'{wd}/split'))]
        rng.shuffle(split_files)
        m = ns(command='mergeFasta', input_path=split_files, output_path=Path(wd) / 'merged.fasta', dedup_header=False)
        with drivers.quiet():
            merge_fasta(m)
        merged = drivers.read_fasta(f'{wd}/merged.fasta')
        counters['merge_runs'] = 1
        if sorted(s for _, s in merged) != sorted(orig):
            viol.append({'kind': 'merge-not-union', 'msg': f'{len(orig)} peptides in, {len(merged)} after split+merge'})
        else:
            for h, s in merged:
                if canon_set(h) != origc[s]:
                    viol.append({'kind': 'merge-header-entries-changed', 'msg': f'{s}: {sorted(orig[s])} -> {h}'})
                    break
        # merge of overlapping databases: entries must be united
        half = [(h, s) for i, (h, s) in enumerate(fa) if i % 2 == 0]
        other = []
        for i, (h, s) in enumerate(fa):
            if i % 3 == 0:
                r_ = rng.random()
                e0 = h.split(' ')[0]
                if r_ < 0.5:
                    other.append((f'ENSTX{i:04d}|SNV-1-A-T|1', s))     # same sequence, different entry
                elif r_ < 0.8:
                    # ... an entry of which the original is a string PREFIX (same fields, running index 1 -> 12), or
                    other.append((e0 + str(rng.randint(0, 9)), s))
                    counters['merge_prefix_entries'] = counters.get('merge_prefix_entries', 0) + 1
                else:
                    # ... one that is a string SUFFIX-extension at the front (transcript id with one more leading character)
                    other.append(('X' + e0, s))
                    counters['merge_prefix_entries'] = counters.get('merge_prefix_entries', 0) + 1
            elif i % 2 == 1:
                other.append((h, s))
        for name, recs in (('h1', half), ('h2', other)):
            with open(f'{wd}/{name}.fasta', 'w') as fh:
                for h, s in recs:
                    fh.write(f'>{h}\n{s}\n')
        in2 = [Path(wd) / 'h1.fasta', Path(wd) / 'h2.fasta']
        if rng.random() < 0.5:
            in2.reverse()          # the union must not depend on the order of the inputs
        m = ns(command='mergeFasta', input_path=in2,
               output_path=Path(wd) / 'merged2.fasta', dedup_header=False)
        with drivers.quiet():
            merge_fasta(m)
        merged2 = {s: canon_set(h) for h, s in drivers.read_fasta(f'{wd}/merged2.fasta')}
        want2 = {}
        for h, s in half + other:
            want2.setdefault(s, set()).update(canon_set(h))
        if merged2 != want2:
            bad = [s for s in want2 if merged2.get(s) != want2[s]][:2]
            viol.append({'kind': 'merge-entries-not-united', 'msg': f'{[(s, sorted(merged2.get(s, [])), sorted(want2[s])) for s in bad]}'})
        # ------------ encode (plain and decoyed)
        src_fa = Path(wd) / 'out.fasta'
        dstr, dpos = rng.choice([('DECOY_', 'prefix'), ('_REV', 'suffix')])
        if rng.random() < 0.5:
            d = ns(command='decoyFasta', input_path=src_fa, output_path=Path(wd) / 'decoy.fasta', decoy_string=dstr,
                   decoy_string_position=dpos, method='reverse', enzyme=None, non_shuffle_pattern='', shuffle_max_attempts=3,
                   keep_peptide_nterm='true', keep_peptide_cterm='true', seed=1,
                   order=rng.choice(['juxtaposed', 'target_first', 'decoy_first']))
            with drivers.quiet():
                decoy_fasta(d)
            src_fa = Path(wd) / 'decoy.fasta'
        e = ns(command='encodeFasta', input_path=src_fa, output_path=Path(wd) / 'enc.fasta', decoy_string=dstr,
               decoy_string_position=dpos)
        with drivers.quiet():
            encode_fasta(e)
        counters['encode_runs'] = 1
        inp = drivers.read_fasta(src_fa)
        enc = drivers.read_fasta(f'{wd}/enc.fasta')
        dic = {}
        for line in open(f'{wd}/enc.fasta.dict'):
            k, v = line.rstrip('\n').split('\t', 1)
            if k in dic:
                viol.append({'kind': 'encode-duplicate-id', 'msg': k})
            dic[k] = v
        if len(enc) != len(inp):
            viol.append({'kind': 'encode-record-count', 'msg': f'{len(inp)} -> {len(enc)}'})
        else:
            seen = {}
            for (h0, s0), (h1, s1) in zip(inp, enc):
                if s0 != s1:
                    viol.append({'kind': 'encode-sequence-changed', 'msg': f'{s0} -> {s1}'})
                    break
                isd = h0.startswith(dstr) if dpos == 'prefix' else h0.endswith(dstr)
                real0 = (h0[len(dstr):] if dpos == 'prefix' else h0[:-len(dstr)]) if isd else h0
                isd1 = h1.startswith(dstr) if dpos == 'prefix' else h1.endswith(dstr)
                id1 = (h1[len(dstr):] if dpos == 'prefix' else h1[:-len(dstr)]) if isd1 else h1
                if isd != isd1:
                    viol.append({'kind': 'encode-decoy-affix-lost', 'msg': f'{h0} -> {h1}'})
                    break
                if dic.get(id1) != real0:
                    viol.append({'kind': 'encode-not-invertible', 'msg': f'{h0} -> {h1} -> {dic.get(id1)}'})
                    break
                if seen.setdefault(real0, id1) != id1:
                    viol.append({'kind': 'encode-equal-headers-different-ids', 'msg': real0})
                    break
        # ------------ summarize vs split (max groups unlimited => no Remaining)
        sm = ns(command='summarizeFasta', gvf=[Path(p) for p in paths], variant_peptides=Path(wd) / 'out.fasta',
                novel_orf_peptides=novel_fa, alt_translation_peptides=alt_fa, order_source=order_arg, group_source=group_arg,
                output_path=Path(wd) / 'summary.txt', output_image=None, ignore_missing_source=False,
                plot_normal_scale=False, plot_log_scale=False, cleavage_rule='trypsin', **common_ref)
        with drivers.quiet():
            summarize_fasta(sm)
        counters['summarize_runs'] = 1
        rows = {}
        with open(f'{wd}/summary.txt') as fh:
            hdr = fh.readline().rstrip('\n').split('\t')
            for line in fh:
                f = line.rstrip('\n').split('\t')
                rows[f[0]] = dict(zip(hdr[1:], (int(x) for x in f[1:])))
        total = sum(r['n_total'] for r in rows.values())
        if total != len(orig):
            viol.append({'kind': 'summary-total', 'msg': f'sum of n_total {total} != {len(orig)} peptides'})
        for name, r in rows.items():
            if sum(v for k, v in r.items() if k != 'n_total') != r['n_total']:
                viol.append({'kind': 'summary-row-inconsistent', 'msg': f'{name}: {r}'})
        a2 = ns(command='splitFasta', gvf=[Path(p) for p in paths], variant_peptides=Path(wd) / 'out.fasta',
                novel_orf_peptides=novel_fa, alt_translation_peptides=alt_fa, output_prefix=Path(wd) / 'split2' / 'db',
                order_source=order_arg, group_source=group_arg, max_source_groups=20, additional_split=None, **common_ref)
        os.makedirs(f'{wd}/split2', exist_ok=True)
        with drivers.quiet():
            split_fasta(a2)
        sizes = {f[len('db_'):-len('.fasta')]: len(drivers.read_fasta(f'{wd}/split2/{f}')) for f in os.listdir(f'{wd}/split2')}
        for name, r in rows.items():
            if r['n_total'] != sizes.get(name, 0):
                viol.append({'kind': 'summary-vs-split', 'msg': f'row {name}: n_total {r["n_total"]} but split database has {sizes.get(name, 0)} '
                                                                f'(rows {sorted(k for k, v in rows.items() if v["n_total"])}, dbs {sizes})'})
                break
        for name, nrec in sizes.items():
            if name not in rows and nrec:
                viol.append({'kind': 'summary-missing-row', 'msg': f'split database {name} ({nrec}) has no summary row'})
        feat = (tuple(sorted(gvf_sources)), bool(group_map), order_arg is not None, max_groups, bool(additional),
                novel_fa is not None, alt_fa is not None, n_multi_file > 0,
                case.cfg['sect'], case.cfg['w2f'], len(dbs), str(src_fa).endswith('decoy.fasta'))
        return {'nontrivial': True, 'feature': feat, 'violations': viol, 'counters': counters,
                'sample': {'sources': gvf_sources, 'order_source': order_arg, 'group_source': group_arg, 'max_source_groups': max_groups,
                           'additional_split': additional, 'databases': {k: len(v) for k, v in dbs.items()}, 'peptides': len(orig),
                           'first_header': fa[0][0][:120]}}
    finally:
        drivers.rm(wd)


def check(rep, tier, seed, specs=None, n_override=None):
    quick = tier == 'quick'
    if specs is None:
        n = n_override or (1200 if quick else 60000)
        specs = [{'seed': common.hash64('c18', 'fixed' if i < n // 2 else seed, i)} for i in range(n)]
        ns_ = n * 2
        specs += [{'kind': 'synth', 'seed': common.hash64('c18s', 'fixed' if i < ns_ // 2 else seed, i)} for i in range(ns_)]
    results, lost = common.shard_run('c18', specs, timeout_s=1500 if quick else 5 * 3600)
    rep.rule = ('real callVariant FASTAs (SNV/indel/MNV, AS, fusion, circRNA; SECT/W2F on or off) with one GVF per source in random order x '
                'splitFasta options (order-source permutations incl. internal sources, group-source, max-source-groups 1-3, additional-split) -> '
                'partition / byte-identical sequences / entry sets preserved / database = best source set under an own implementation of the '
                'documented ordering (fewer sources first, then source order); mergeFasta of the split files restores the input, merge of overlapping '
                'FASTAs unites entries; encodeFasta (plain and decoyed input) inverted through the .dict; summarizeFasta totals == #peptides and '
                'each row == size of the corresponding split database with unlimited groups. Half of the cases add a real callNovelORF and / or '
                'callAltTranslation FASTA of the same reference as further inputs of splitFasta / summarizeFasta, with 1-3 sequences of the variant '
                'FASTA repeated in them under entries of their own kind (entries of one sequence from several files must be united). Two thirds of the cases '
                'use generated FASTAs over 4-6 sources (entries with 1-3 ids from different sources: equal-size source sets with crossing ranks). Wildcards (+,*) are not generated. '
                'non-trivial = non-empty FASTA; distinct = option/source vector.')
    rep.absorb(results, lost)
    for k in ('split_runs', 'merge_runs', 'encode_runs', 'summarize_runs', 'assignments'):
        if not rep.counters.get(k):
            rep.inconclusive.append(f'monitor {k} had zero evaluations')
