"""C10 - canonical peptide pool = exact in-silico digest; cleavage rule semantics.

(a) pool monitor: generated proteomes/annotations -> common.load_references (the path every
    command uses when no index is given) and generateIndex's pool -> compared with O-CANON.
(b) rule monitor: for each of the 35 rules (+ trypsin exception) the repository's site enumeration
    (iter_enzymatic_cleave_sites, ..._with_range, ..._with_range_local) is compared with the
    positional PeptideCutter table on ALL strings up to a bounded length over the rule's alphabet
    and on random strings over the 20 amino acids.
"""
from __future__ import annotations
import itertools
import random

from harness import common
from harness.model import rules, digest

LEVEL = 'exploration'


# ------------------------------------------------------------------ planning
def _enum_specs(budget):
    specs = []
    for rule in rules.ENZYMES:
        for exc in ([None, 'trypsin_exception'] if rule == 'trypsin' else [None]):
            alpha = rules.alphabet(rule, exc)
            lo, hi = rules.window(rule)
            L = lo + hi + 1
            while L > 2 and len(alpha) ** L > budget:
                L -= 1
            # all shorter lengths in one spec, the longest length split by first letter
            specs.append({'kind': 'enum', 'rule': rule, 'exc': exc, 'alpha': alpha,
                          'lengths': list(range(1, L)), 'prefix': ''})
            for c in alpha:
                specs.append({'kind': 'enum', 'rule': rule, 'exc': exc, 'alpha': alpha,
                              'lengths': [L], 'prefix': c})
    return specs


def check(rep, tier, seed, specs=None, n_override=None):
    quick = tier == 'quick'
    if specs is None:
        specs = _enum_specs(300_000 if quick else 6_000_000)
        n_rand = 40 if quick else 400
        for rule in rules.ENZYMES:
            for k in range(2 if quick else 8):
                specs.append({'kind': 'random', 'rule': rule,
                              'exc': 'trypsin_exception' if (rule == 'trypsin' and k % 2) else None,
                              'seed': common.hash64('C10r', seed, rule, k), 'n': 1500})
        n_pool = n_override or (3000 if quick else 20000)
        for k in range(n_pool):
            specs.append({'kind': 'pool', 'seed': common.hash64('C10p', seed if k >= n_pool // 4 else 'fixed', k)})
    results, lost = common.shard_run('c10', specs, timeout_s=1800 if quick else 4 * 3600)
    rep.rule = ('(b) every string of length <= window+1 (shorter if the alphabet is large) over the reduced '
                'alphabet {all residues the rule mentions + one neutral} per rule, plus random 20-letter strings; '
                'non-trivial = string with >= 1 cleavage site in repo or model; distinct = (rule, exception, '
                'site pattern signature). (a) generated proteomes (NF flags, leading X, internal stop, internal X, '
                'Sec) x random rule/exception(auto|None|trypsin_exception)/limits; non-trivial = non-empty pool.')
    rep.absorb(results, lost)
    rep.exhaustive = True
    rep.extra['exhaustive_scope'] = ('rule semantics: all strings up to the stated length over the reduced '
                                     'alphabet, for all 35 rules + trypsin exception; pools are sampled')
    rep.assumptions.append('positional rule table in harness/model/rules.py transcribed from the PeptideCutter '
                           'documentation; a position named by a rule must be occupied (pyteomics convention)')
    need = ['enum_strings', 'pool_cases', 'range_checks']
    for k in need:
        if not rep.counters.get(k):
            rep.inconclusive.append(f'monitor {k} had zero evaluations')


# ------------------------------------------------------------------ worker side
_rec = None


def _record(s):
    global _rec
    from Bio.Seq import Seq
    from moPepGen.aa.AminoAcidSeqRecord import AminoAcidSeqRecord
    if _rec is None:
        _rec = AminoAcidSeqRecord(Seq('A'))
    _rec.seq = Seq(s)
    return _rec


def _check_string(s, rule, exc, viol, counters, feats, deep):
    rec = _record(s)
    want = rules.cleave_sites(s, rule, exc)
    got = list(rec.iter_enzymatic_cleave_sites(rule=rule, exception=exc))
    got_n = [x for x in got if 0 < x < len(s)]
    if got_n != want:
        viol.append({'kind': 'site-mismatch',
                     'msg': f'rule={rule} exception={exc} seq={s} repo_sites={got} model_sites={want}'})
        return
    if want:
        feats.add((rule, exc, len(want), min(want) <= 2, max(want) >= len(s) - 2))
    # paired range patterns
    try:
        wr = list(rec.iter_enzymatic_cleave_sites_with_range(rule=rule, exception=exc))
    except ValueError as e:
        viol.append({'kind': 'range-pairing', 'msg': f'rule={rule} exception={exc} seq={s}: {e}'})
        return
    counters['range_checks'] = counters.get('range_checks', 0) + 1
    if [x for x, _ in wr] != got:
        viol.append({'kind': 'range-sites-differ',
                     'msg': f'rule={rule} exception={exc} seq={s} with_range={wr} sites={got}'})
        return
    for site, (a, b) in wr:
        if not (0 <= a < site <= b <= len(s)) and not (a <= site < b):
            viol.append({'kind': 'range-not-containing-site',
                         'msg': f'rule={rule} seq={s} site={site} range={(a, b)}'})
    if deep:
        # partition independence: the reported range alone determines the site, whatever
        # residues flank it (this is what the cleavage graph relies on when it splits nodes)
        alpha = rules.alphabet(rule, None)
        for site, (a, b) in wr:
            sub = s[a:b]
            for l in alpha:
                for r in alpha:
                    t = l * 4 + sub + r * 3
                    if not rules.is_site(t, 4 + site - a, rule, None):
                        viol.append({'kind': 'range-insufficient-context',
                                     'msg': f'rule={rule} seq={s} site={site} range={(a, b)} '
                                            f'sub={sub} flanks={l},{r}: not a site by the table'})
                        return
            counters['context_checks'] = counters.get('context_checks', 0) + 1


def run_case(spec):
    kind = spec['kind']
    viol, counters, feats = [], {}, set()
    if kind == 'enum':
        rule, exc, alpha = spec['rule'], spec['exc'], spec['alpha']
        n = 0
        for L in spec['lengths']:
            k = L - len(spec['prefix'])
            if k < 0:
                continue
            for tup in itertools.product(alpha, repeat=k):
                s = spec['prefix'] + ''.join(tup)
                n += 1
                _check_string(s, rule, exc, viol, counters, feats, deep=(n % 97 == 0))
                if len(viol) > 5:
                    break
        counters['enum_strings'] = n
        return {'n': n, 'features': sorted(feats), 'violations': viol[:5], 'counters': counters,
                'sample': {'rule': rule, 'exception': exc, 'alphabet': alpha, 'lengths': spec['lengths'],
                           'prefix': spec['prefix'], 'strings': n}}
    if kind == 'random':
        rng = random.Random(spec['seed'])
        rule, exc = spec['rule'], spec['exc']
        alpha = rules.alphabet(rule, exc)
        n = 0
        for _ in range(spec['n']):
            L = rng.randint(1, 40)
            pool = rules.AA20 if rng.random() < 0.5 else alpha
            s = ''.join(rng.choice(pool) for _ in range(L))
            n += 1
            _check_string(s, rule, exc, viol, counters, feats, deep=(n % 23 == 0))
            if len(viol) > 5:
                break
        counters['random_strings'] = n
        return {'n': n, 'features': sorted(feats), 'violations': viol[:5], 'counters': counters}
    if kind == 'pool':
        return _pool_case(spec)
    raise ValueError(kind)


def _pool_case(spec):
    import argparse
    from harness import drivers
    from harness.gen import refgen
    rng = random.Random(spec['seed'])
    wd = drivers.case_dir('c10-')
    try:
        ref = refgen.make_reference(rng, n_genes=rng.randint(1, 5), coding_p=0.9, sec_p=0.3, nf_p=0.35,
                                    max_exons=4, isoforms=(1, 2))
        refgen.write_reference(ref, wd, leading_x=rng.random() < 0.5)
        entries = refgen.proteome_entries(ref, leading_x=False)
        # re-write the proteome with hostile decorations
        lx = rng.random() < 0.5
        prot = []
        shared = {}         # identical protein sequences under several transcripts (paralogs / isoforms sharing the CDS)
        dup = rng.random() < 0.35
        coding_txs = [t for t in ref.all_txs() if t.coding]
        master = None
        if dup and len(coding_txs) > 1:
            # half of the time: the sequence of a complete (M-started) protein is also listed under other transcripts,
            # before and after it in file order, whatever their cds_start_NF flags
            cands = [t for t in coding_txs if not t.cds_start_nf]
            if cands and rng.random() < 0.5:
                m = rng.choice(cands)
                master = (ref.protein(m), {t.id for t in coding_txs if t is not m and rng.random() < 0.6})
        with open(f'{wd}/proteome.fasta', 'w') as fh:
            for tx in ref.all_txs():
                if not tx.coding:
                    continue
                aa = ref.protein(tx)
                if (master and tx.id in master[1]) or (dup and not master and shared and rng.random() < 0.6):
                    aa = master[0] if master else rng.choice(sorted(shared.values()))   # same sequence as another entry, own NF flag
                    if lx and tx.cds_start_nf:
                        aa = 'X' * rng.randint(1, 2) + aa
                    prot.append((aa, tx.cds_start_nf))
                    fh.write(f'>{tx.protein_id}|{tx.id}|{tx.gene.id}|-\n{aa}\n')
                    continue
                r = rng.random()
                if r < 0.15 and len(aa) > 6:       # internal stop: pool must use the part before it
                    k = rng.randint(2, len(aa) - 2)
                    aa = aa[:k] + '*' + aa[k + 1:]
                elif r < 0.3 and len(aa) > 6:      # internal X
                    k = rng.randint(1, len(aa) - 2)
                    aa = aa[:k] + 'X' + aa[k + 1:]
                # motif decoration: rule-specific contexts (exceptions, proline blocks, Met starts)
                for _ in range(rng.randint(0, 4)):
                    m = rng.choice(['CKD', 'DKD', 'CKH', 'CKY', 'CRK', 'RRH', 'RRR', 'WKP', 'MRP', 'KP', 'RP',
                                    'KK', 'RK', 'DEVDG', 'IEPD', 'LEHD', 'NG', 'GRG', 'EE', 'DDDK', 'HPS'])
                    if len(aa) > len(m) + 2:
                        k = rng.randint(1, len(aa) - len(m) - 1)
                        aa = aa[:k] + m + aa[k + len(m):]
                shared[tx.id] = aa
                if lx and tx.cds_start_nf:
                    aa = 'X' * rng.randint(1, 2) + aa
                prot.append((aa, tx.cds_start_nf))
                fh.write(f'>{tx.protein_id}|{tx.id}|{tx.gene.id}|-\n{aa}\n')
        rule = rng.choice(['trypsin'] * 6 + rules.ENZYMES)
        exc = rng.choice(['auto', 'auto', None, 'trypsin_exception'])
        lim = digest.Limits(rule, exc, rng.choice([0, 1, 2, 2, 3]), rng.choice([0., 300., 500., 800.]),
                            rng.choice([1, 5, 7, 9]), rng.choice([12, 25, 40]))
        a = drivers.ref_namespace(wd)
        drivers.cleavage_namespace(a, rule, exc, lim.miscleavage, lim.min_mw, lim.min_length, lim.max_length)
        from moPepGen.cli import common as mcommon
        from moPepGen import params
        cp = params.CleavageParams(enzyme=rule, exception=exc, miscleavage=lim.miscleavage, min_mw=lim.min_mw,
                                   min_length=lim.min_length, max_length=lim.max_length)
        with drivers.quiet():
            _, _, _, pool = mcommon.load_references(a, cleavage_params=cp)
        got = {str(x) for x in pool}
        want = digest.canonical_pool(prot, lim)
        viol = []
        # peptides within 1e-6 of the mass threshold are not decided
        missing = sorted(p for p in want - got if abs(digest.mass(p) - lim.min_mw) > 1e-6)
        extra = sorted(p for p in got - want if abs(digest.mass(p) - lim.min_mw) > 1e-6)
        if missing or extra:
            viol.append({'kind': 'pool-mismatch',
                         'msg': f'limits={lim.as_dict()} cli_exception={exc} missing_from_pool={missing[:8]} '
                                f'unexpected_in_pool={extra[:8]} (|model|={len(want)}, |repo|={len(got)})'})
        seqs_ = [p.lstrip('X') for p, _ in prot]
        feat = (rule, str(exc), lim.miscleavage, lim.min_length, lim.max_length, lx, len(set(seqs_)) < len(seqs_),
                any(n for _, n in prot), any('*' in p for p, _ in prot), any('X' in p.lstrip('X') for p, _ in prot))
        return {'nontrivial': bool(want), 'feature': feat, 'violations': viol,
                'counters': {'pool_cases': 1, 'pool_peptides': len(want)},
                'sample': {'limits': lim.as_dict(), 'cli_exception': exc, 'proteins': [p for p, _ in prot][:2],
                           'pool_size': len(want)}}
    finally:
        drivers.rm(wd)
