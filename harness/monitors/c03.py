"""C03 - FASTA header entries are truthful witnesses: backbone and variant ids exist in the input,
applying exactly the named variants yields the peptide, entry strings are unique."""
from harness import common
from harness.monitors import cvmon, cvplan

LEVEL = 'exploration'


def run_case(spec):
    return cvmon.judge_case(spec, do_headers=True)


def _frameshift_id(vid):
    f = vid.split('-')
    return len(f) == 4 and f[0] == 'INDEL' and (len(f[3]) - len(f[2])) % 3 != 0


def classify(b, has_nested):
    """Mechanism id of a known finding explaining header defect b, or None."""
    k = b['kind']
    if k == 'not-witness-exception':
        return 'KF-CTX'
    if k == 'duplicate-entry':
        return 'KF-LABEL-DUP-FUSION' if b.get('donor_of_fusion') else None
    if k != 'not-witness':
        return None
    rep = b.get('repair')
    ids = b['entry'].split('|')
    if has_nested and (any(x.split('_')[0] in ('SE', 'RI', 'A3SS', 'A5SS', 'MXE') for x in ids) or b.get('names_nested_record')):
        return 'KF-NESTED'      # entry names the AS record, or a record nested in its donor segment (possibly without the AS record)
    if ids[0].startswith('FUSION-') and any(x.startswith('2-') for x in ids) \
            and (b.get('fusion_donor_fs') or any(_frameshift_id(x[2:]) for x in ids if x.startswith('1-'))):
        return 'KF-FUSION-ACCEPTOR-VAR'     # entry names an acceptor-side record and the donor part carries a frameshifting record
    if b.get('circ_lapmix'):
        return 'KF-CIRC-LAP-MIX'        # the peptide needs the named records in one lap of the circle and not in another
    if b.get('boundary_only') and not (rep and rep['drop'] and not rep['add']):
        # the sequence IS present in a protein of exactly the named haplotype; only its ends are not cleavage sites there, i.e. a
        # cleavage-creating record is missing from the label. No recorded label finding has this shape (0 of 259 upstream
        # omissions on 5200 unchanged-tree cases): never attributed, unless the repair only DROPS
        # records (a partner record listed in excess changes a residue next to the site; KF-LABEL-PARTNER / -EXTRA-UPSTREAM)
        return None
    if not rep:
        return None
    where = rep.get('where') or {}
    added, dropped = where.get('added', {}), where.get('dropped', {})
    if b.get('circular'):
        # circRNA graphs evaluate 'silent' for an SNV on the circular sequence with gene coordinates (wrong codon context):
        # a non-silent SNV can be taken for silent and left out of the header - wherever it lies
        if rep['add'] and not rep['drop'] and all(x.startswith('SNV-') for x in rep['add']):
            return 'KF-LABEL-CIRC-SILENT-SNV'
        # a circle barely longer than the peptide: every record of the circle is passed again in the lap before the peptide
        if b.get('circle_nt') and b['circle_nt'] <= 3 * len(b['pep']) + 9:
            added = {k: 'upstream' for k in added}
            dropped = {k: 'upstream' for k in dropped}
    if set(rep['add']) - set(added) or set(rep['drop']) - set(dropped):
        return None         # could not be located: not attributable
    vals = list(added.values()) + list(dropped.values())
    if not all(v in ('upstream', 'overlapping-or-adjacent-partner') for v in vals):
        return None
    if any(v == 'upstream' for v in added.values()):
        return 'KF-LABEL-UPSTREAM'
    if any(v == 'upstream' for v in dropped.values()):
        return 'KF-LABEL-EXTRA-UPSTREAM'
    return 'KF-LABEL-PARTNER'


def check(rep, tier, seed, specs=None, n_override=None):
    quick = tier == 'quick'
    if specs is None:
        nf, nr = (2400, 1200) if quick else (40000, 120000)
        if n_override:
            nf, nr = n_override, 0
        specs = cvplan.specs('C03', seed, nf, nr)
    results, lost = common.shard_run('c03', specs, timeout_s=1500 if quick else 6 * 3600)
    rep.rule = ('same generated cases as C01/C02; every (peptide, header entry) pair of every FASTA: own parser for the entry grammar '
                '(backbone | [1-/2-]variant ids | ORFn | index); backbone must be an input transcript / fusion / circRNA id; ids must occur in '
                'the input GVFs (or be SECT-/W2F- with the flag on); fusion side prefixes must match the partner the record lies on; '
                'applying exactly the named records (ids compared as a set) must give a haplotype of which the peptide is a liberal digestion '
                'product; entry strings unique per FASTA. non-trivial = case with >= 1 header entry naming a variant; distinct = feature vector.')
    n_entries = 0
    for r in results:
        if r.get('skipped'):
            rep.count('skipped')
            continue
        if r.get('error'):
            rep.add_violation('harness-exception', r['error'][-1500:], r.get('spec'))
            continue
        for k, v in (r.get('counters') or {}).items():
            rep.count(k, v)
        spec = r.get('spec')
        if r.get('tool_error'):
            rep.count('tool_crashes')
            rep.add_case(False, None, None)
            continue
        hdr = r.get('hdr') or {'n': 0, 'bad': []}
        n_entries += hdr['n']
        rep.add_case(hdr['n'] > 0, r.get('feature'), r.get('sample'))
        rep.add_class_case((r.get('spec') or {}).get('stratum'))
        has_nested = r.get('has_nested_donor', False)
        for b in hdr['bad']:
            mech = classify(b, has_nested)
            rep.add_violation('header-' + b['kind'], f"entry {b['entry']} peptide {b['pep']}: {b.get('why', '')} "
                              f"repair={b.get('repair')}", spec, mech=mech, detail=r.get('describe'))
    if lost:
        rep.inconclusive.append(f'{len(lost)} cases lost')
    if not n_entries:
        rep.inconclusive.append('no header entry was evaluated')
    rep.extra['header_entries'] = n_entries
    rep.min_nontrivial = 50 if specs and len(specs) > 200 else 1
