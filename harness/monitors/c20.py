"""C20 - decoyFasta: targets unchanged, one decoy per target, decoy = rearrangement keeping the
requested fixed positions, reproducible for a seed, order-independent as a set, output order respected."""
from __future__ import annotations
import argparse
import os
import random
from pathlib import Path

from harness import common, drivers
from harness.model import rules

LEVEL = 'exploration'

AA = 'ACDEFGHIKLMNPQRSTVWY'


def fixed_prop(seq, enzyme, nterm, cterm, pattern):
    """Fixed indices as the property states them: N-/C-terminus, listed residues, and the residues AT
    the enzyme's cleavage sites (P1 for C-terminal cutters, P1' for N-terminal cutters)."""
    F = set()
    if enzyme:
        exc = 'trypsin_exception' if enzyme == 'trypsin' else None
        for s in rules.cleave_sites(seq, enzyme, exc):
            F.add(s if enzyme in rules.NTERM_CUTTERS else s - 1)
    for i, c in enumerate(seq):
        if (i == 0 and nterm) or (i == len(seq) - 1 and cterm) or c in pattern:
            F.add(i)
    return F


def fixed_tool_d6(seq, enzyme, nterm, cterm, pattern):
    """The recorded known finding: the index kept is the regex END offset of the site (the residue after the
    cleavage residue for C-terminal cutters) and no exception is applied (misspelt exception name)."""
    F = set()
    if enzyme:
        for s in rules.cleave_sites(seq, enzyme, None):
            F.add(s)
    for i, c in enumerate(seq):
        if (i == 0 and nterm) or (i == len(seq) - 1 and cterm) or c in pattern:
            F.add(i)
    return F


def reverse_with_fixed(seq, F):
    free = [i for i in range(len(seq)) if i not in F]
    vals = [seq[i] for i in reversed(free)]
    out = list(seq)
    for i, v in zip(free, vals):
        out[i] = v
    return ''.join(out)


def gen_targets(rng):
    n = rng.randint(1, 25)
    mode = rng.choice(['random', 'random', 'lowcomplex', 'tryptic', 'short'])
    seqs = []
    for _ in range(n):
        if mode == 'lowcomplex':
            alpha = rng.sample(AA, rng.randint(1, 2))
            s = ''.join(rng.choice(alpha) for _ in range(rng.randint(2, 8)))
        elif mode == 'short':
            s = ''.join(rng.choice(AA) for _ in range(rng.randint(1, 3)))
        elif mode == 'tryptic':
            s = ''.join(rng.choice(AA + 'KRKRPP') for _ in range(rng.randint(5, 30)))
            if rng.random() < 0.7:
                s += rng.choice('KR')
        else:
            s = ''.join(rng.choice(AA) for _ in range(rng.randint(4, 40)))
        seqs.append(s)
    uniq = rng.random() < 0.8
    if uniq:
        seqs = list(dict.fromkeys(seqs))
    return [(f'ENST{i:04d}|SNV-{rng.randint(1, 999)}-A-T|{rng.randint(1, 9)}' + (f' ENST{i + 1:04d}|INDEL-7-A-AT|1' if rng.random() < 0.3 else ''), s)
            for i, s in enumerate(seqs)], uniq


def run_decoy(wd, name, targets, opts):
    from moPepGen.cli.decoy_fasta import decoy_fasta
    inp = f'{wd}/{name}.in.fasta'
    outp = f'{wd}/{name}.out.fasta'
    with open(inp, 'w') as fh:
        for h, s in targets:
            fh.write(f'>{h}\n{s}\n')
    a = argparse.Namespace(command='decoyFasta', input_path=Path(inp), output_path=Path(outp), quiet=True, debug_level=1,
                           **opts)
    with drivers.quiet():
        decoy_fasta(a)
    return drivers.read_fasta(outp)


def run_case(spec):
    rng = random.Random(spec['seed'])
    targets, uniq = gen_targets(rng)
    enzyme = rng.choice([None, None, 'trypsin', 'trypsin', 'lysc', 'lysn', 'asp-n', 'arg-c', 'chymotrypsin high specificity',
                         rng.choice(rules.ENZYMES)])
    pattern = rng.choice([[''], [''], ['K', 'R'], ['P'], list(rng.sample(AA, 3))])
    opts = dict(decoy_string=rng.choice(['DECOY_', 'rev_', '_REV', 'XXX']), decoy_string_position=rng.choice(['prefix', 'suffix']),
                method=rng.choice(['reverse', 'shuffle']), enzyme=enzyme, non_shuffle_pattern=','.join(pattern),
                shuffle_max_attempts=rng.choice([1, 3, 30]), keep_peptide_nterm=rng.choice(['true', 'false']),
                keep_peptide_cterm=rng.choice(['true', 'false']), seed=rng.choice([None, 1, 123123, rng.randint(0, 10 ** 6)]),
                order=rng.choice(['juxtaposed', 'target_first', 'decoy_first']))
    nterm, cterm = opts['keep_peptide_nterm'] == 'true', opts['keep_peptide_cterm'] == 'true'
    pat = set(x for x in pattern if x)
    wd = drivers.case_dir('c20-')
    viol, kf = [], 0
    try:
        out = run_decoy(wd, 'a', targets, opts)
        ds = opts['decoy_string']

        def is_decoy_hdr(h):
            return h.startswith(ds) if opts['decoy_string_position'] == 'prefix' else h.endswith(ds)

        def strip(h):
            return h[len(ds):] if opts['decoy_string_position'] == 'prefix' else h[:len(h) - len(ds)]
        tset = sorted(targets, key=lambda x: x[1])
        n = len(targets)
        if len(out) != 2 * n:
            viol.append({'kind': 'record-count', 'msg': f'{n} targets -> {len(out)} records'})
        else:
            if opts['order'] == 'juxtaposed':
                tpart, dpart = out[0::2], out[1::2]
            elif opts['order'] == 'target_first':
                tpart, dpart = out[:n], out[n:]
            else:
                dpart, tpart = out[:n], out[n:]
            if sorted(tpart) != sorted(targets):
                viol.append({'kind': 'targets-changed-or-order', 'msg': f'order={opts["order"]}: target part {tpart[:3]} vs input {targets[:3]}'})
            else:
                for (th, tseq), (dh, dseq) in zip(tpart, dpart):
                    want_h = ds + th if opts['decoy_string_position'] == 'prefix' else th + ds
                    if dh != want_h:
                        viol.append({'kind': 'decoy-header', 'msg': f'target {th!r} decoy header {dh!r} expected {want_h!r}'})
                        break
                    if sorted(dseq) != sorted(tseq):
                        viol.append({'kind': 'decoy-not-permutation', 'msg': f'target {tseq} decoy {dseq}'})
                        break
                    Fp = fixed_prop(tseq, enzyme, nterm, cterm, pat)
                    Fd = fixed_tool_d6(tseq, enzyme, nterm, cterm, pat)
                    if opts['method'] == 'reverse':
                        if dseq == reverse_with_fixed(tseq, Fp):
                            continue
                        if dseq == reverse_with_fixed(tseq, Fd):
                            kf += 1
                            continue
                        viol.append({'kind': 'reverse-wrong', 'msg': f'target {tseq} decoy {dseq} expected {reverse_with_fixed(tseq, Fp)} '
                                                                     f'(fixed {sorted(Fp)}), options {opts}'})
                        break
                    else:
                        if all(dseq[i] == tseq[i] for i in Fp):
                            continue
                        if all(dseq[i] == tseq[i] for i in Fd if i < len(tseq)):
                            kf += 1
                            continue
                        viol.append({'kind': 'shuffle-moves-fixed-position', 'msg': f'target {tseq} decoy {dseq} fixed {sorted(Fp)} options {opts}'})
                        break
        # reproducibility and order independence
        if opts['seed'] is not None and not viol:
            out2 = run_decoy(wd, 'b', targets, opts)
            if out2 != out:
                viol.append({'kind': 'not-reproducible', 'msg': f'same seed {opts["seed"]}, different output'})
            if uniq:
                perm = list(targets)
                rng.shuffle(perm)
                out3 = run_decoy(wd, 'c', perm, opts)
                if sorted(out3) != sorted(out):
                    viol.append({'kind': 'order-dependent', 'msg': f'permuted input gives a different record set, options {opts}: '
                                                                    f'{sorted(set(out3) - set(out))[:3]}'})
        feat = (opts['method'], enzyme, opts['order'], opts['decoy_string_position'], nterm, cterm, bool(pat), uniq,
                opts['seed'] is not None)
        res = {'nontrivial': n > 0, 'feature': feat, 'violations': viol,
               'counters': {'cases': 1, 'targets': n, 'd6_consistent_decoys': kf},
               'sample': {'options': {k: str(v) for k, v in opts.items()}, 'targets': targets[:2], 'output': out[:4]}}
        if kf:
            res['violations'].append({'kind': 'cleavage-residue-not-fixed', 'mech': 'KF-DECOY-SITE',
                                      'msg': f'{kf} decoys keep the residue AFTER the cleavage residue (enzyme {enzyme})'})
        return res
    finally:
        drivers.rm(wd)


def check(rep, tier, seed, specs=None, n_override=None):
    quick = tier == 'quick'
    if specs is None:
        n = n_override or (20000 if quick else 200000)
        specs = [{'seed': common.hash64('c20', 'fixed' if i < n // 2 else seed, i)} for i in range(n)]
    results, lost = common.shard_run('c20', specs, timeout_s=1200 if quick else 4 * 3600)
    rep.rule = ('1-25 generated targets (random, low-complexity, tryptic, 1-3 residue, optionally duplicated sequences, multi-entry headers) x '
                'method x enzyme (None, common ones, any of 35) x fixed-residue lists x N-/C-terminus flags x seeds x 3 output orders x 2 decoy-string '
                'positions; own re-implementation of reversal around fixed positions; fixed positions per the property (residue AT the cleavage site); '
                'same seed twice; permuted input. non-trivial = >= 1 target; distinct = option vector.')
    rep.absorb(results, lost)
