"""C15 - fusion parsers (STAR-Fusion, FusionCatcher, Arriba) yield the fusion transcript defined by the
breakpoints; callVariant's fusion peptides are digestion products of that sequence."""
from __future__ import annotations
import random
from pathlib import Path

from harness import common, drivers, cvengine as cv
from harness.gen import refgen, gvfgen
from harness.model import oracle as orc, digest as dg
from harness.model.seqmodel import revcomp
from harness.monitors.c13 import parse_line
from harness.monitors import cvmon

LEVEL = 'exploration'


def direct_fused(ref, d, a, Ld, Fa):
    """Fused sequence straight from genome coordinates. Ld: genomic index of the last donor base kept,
    Fa: genomic index of the first acceptor base kept."""
    def oriented(gene, lo, hi):           # chromosome slice [lo, hi) in gene orientation
        s = ref.chroms[gene.chrom][lo:hi]
        return s if gene.strand == 1 else revcomp(s)
    dg_, ag = d.gene, a.gene
    gl = dg_.genomic2g(Ld)                # gene coordinate of last donor base
    out = []
    last_exon_end = None
    for s, e in d.exons:
        if e <= gl + 1:
            out.append(ref.gene_seq(dg_)[s:e])
            last_exon_end = e
        elif s <= gl:
            out.append(ref.gene_seq(dg_)[s:gl + 1])
            last_exon_end = None
            break
        else:
            break
    if d.gene2tx(gl) is None:             # intronic: bases between the exon end and the breakpoint are retained
        if last_exon_end is None:
            return None
        out.append(ref.gene_seq(dg_)[last_exon_end:gl + 1])
    ga = ag.genomic2g(Fa)
    tail = []
    if a.gene2tx(ga) is None:
        nxt = [s for s, e in a.exons if s > ga]
        if not nxt:
            return None
        tail.append(ref.gene_seq(ag)[ga:min(nxt)])
        ga = min(nxt)
    for s, e in a.exons:
        if e <= ga:
            continue
        tail.append(ref.gene_seq(ag)[max(s, ga):e])
    return ''.join(out) + ''.join(tail)


def run_case(spec):
    from moPepGen.cli.parse_star_fusion import parse_star_fusion
    from moPepGen.cli.parse_fusion_catcher import parse_fusion_catcher
    from moPepGen.cli.parse_arriba import parse_arriba
    rng = random.Random(spec['seed'])
    ref = refgen.make_reference(rng, n_genes=rng.randint(2, 4), isoforms=(1, 3), n_chroms=rng.randint(1, 2), min_exons=1, max_exons=4,
                                exon_len=(20, 90), intron_len=(12, 50), sec_p=0.0)
    wd = drivers.case_dir('c15-')
    viol = []
    counters = {'cases': 1}
    try:
        # GENCODE lists pseudo-autosomal genes twice: <id> on chrX and <id>_PAR_Y on chrY. A quarter of the references get such a
        # twin of one gene (written to the files only; the fusions are drawn from the original genes, and an unversioned gene id
        # - FusionCatcher - must resolve to the original, never to the _PAR_Y twin)
        ref_w = ref
        rng_par = random.Random(common.hash64(spec['seed'], 'par'))
        if rng_par.random() < 0.25:
            import copy
            from harness.model.seqmodel import Gene, Tx
            ref_w = copy.deepcopy(ref)
            g0 = rng_par.choice(ref_w.genes)
            ref_w.chroms['chrY'] = ref_w.chroms[g0.chrom]
            twin = Gene(g0.id + '_PAR_Y', 'chrY', g0.start, g0.end, g0.strand, g0.name, g0.biotype)
            for t in g0.txs:
                t2 = Tx(t.id + '_PAR_Y', twin, t.exons, t.coding, t.cds, list(t.sec), t.cds_start_nf, t.mrna_end_nf, t.biotype)
                twin.txs.append(t2)
            if rng_par.random() < 0.5:
                ref_w.genes.append(twin)
            else:
                ref_w.genes.insert(0, twin)
            counters['par_y_twins'] = 1
        refgen.write_reference(ref_w, wd)

        def bad(kind, msg):
            if len(viol) < 8:
                viol.append({'kind': kind, 'msg': msg})
        # logical fusions
        fusions = []
        for _ in range(rng.randint(2, 5)):
            gd, ga = rng.sample(ref.genes, 2)
            d0, a0 = rng.choice(gd.txs), rng.choice(ga.txs)
            mode_d = rng.choice(['exonic', 'exonic', 'exon-end', 'intronic', 'tx-last'])
            mode_a = rng.choice(['exonic', 'exonic', 'exon-start', 'intronic'])
            if mode_d == 'intronic' and len(d0.exons) > 1:
                i = rng.randrange(len(d0.exons) - 1)
                gl = rng.randint(d0.exons[i][1], d0.exons[i + 1][0] - 1)
            elif mode_d == 'exon-end':
                gl = rng.choice(d0.exons)[1] - 1
            elif mode_d == 'tx-last':
                gl = d0.exons[-1][1] - 1
            else:
                gl = d0.tx2gene(rng.randint(0, d0.tx_len() - 1))
            if mode_a == 'intronic' and len(a0.exons) > 1:
                i = rng.randrange(len(a0.exons) - 1)
                gf = rng.randint(a0.exons[i][1], a0.exons[i + 1][0] - 1)
            elif mode_a == 'exon-start':
                gf = rng.choice(a0.exons)[0]
            else:
                gf = a0.tx2gene(rng.randint(0, a0.tx_len() - 1))
            ev = {'gd': gd, 'ga': ga, 'Ld': gd.g2genomic(gl), 'Fa': ga.g2genomic(gf), 'gl': gl, 'gf': gf,
                  'good': rng.random() < 0.8, 'unknown_gene': rng.random() < 0.1, 'antisense': rng.random() < 0.1,
                  'modes': (mode_d, mode_a)}
            fusions.append(ev)
        # --- write the three tool outputs
        st = lambda s: '+' if s == 1 else '-'
        star = ['#FusionName\tJunctionReadCount\tSpanningFragCount\test_J\test_S\tSpliceType\tLeftGene\tLeftBreakpoint\tRightGene\tRightBreakpoint\t'
                'JunctionReads\tSpanningFrags\tLargeAnchorSupport\tFFPM\tLeftBreakDinuc\tLeftBreakEntropy\tRightBreakDinuc\tRightBreakEntropy\tannots']
        fc = ['Gene_1_symbol(5end_fusion_partner)\tGene_2_symbol(3end_fusion_partner)\tFusion_description\tCounts_of_common_mapping_reads\tSpanning_pairs\t'
              'Spanning_unique_reads\tLongest_anchor_found\tFusion_finding_method\tFusion_point_for_gene_1(5end_fusion_partner)\t'
              'Fusion_point_for_gene_2(3end_fusion_partner)\tGene_1_id(5end_fusion_partner)\tGene_2_id(3end_fusion_partner)\tExon_1_id(5end_fusion_partner)\t'
              'Exon_2_id(3end_fusion_partner)\tFusion_sequence\tPredicted_effect']
        ar = ['#gene1\tgene2\tstrand1(gene/fusion)\tstrand2(gene/fusion)\tbreakpoint1\tbreakpoint2\tsite1\tsite2\ttype\tsplit_reads1\tsplit_reads2\t'
              'discordant_mates\tcoverage1\tcoverage2\tconfidence\treading_frame\ttags\tretained_protein_domains\tclosest_genomic_breakpoint1\t'
              'closest_genomic_breakpoint2\tgene_id1\tgene_id2\ttranscript_id1\ttranscript_id2\tdirection1\tdirection2\tfilters\tfusion_transcript\t'
              'peptide_sequence\tread_identifiers']
        thr = {'min_est_j': 5.0, 'max_common_mapping': 0, 'min_spanning_unique': 5, 'min_split_read1': 1, 'min_split_read2': 1,
               'min_confidence': rng.choice(['low', 'medium', 'high'])}
        for ev in fusions:
            gd, ga = ev['gd'], ev['ga']
            gid_d = gd.id if not ev['unknown_gene'] else 'ENSG99999999999.1'
            estj = rng.choice([5.0, 7.5, 30.0]) if ev['good'] else rng.choice([4.99, 0.0])
            star.append('\t'.join([f'{gd.name}--{ga.name}', '4', '5', f'{estj:.2f}', '3.86', 'ONLY_REF_SPLICE', f'{gd.name}^{gid_d}',
                                   f'{gd.chrom}:{ev["Ld"] + 1}:{st(gd.strand)}', f'{ga.name}^{ga.id}', f'{ga.chrom}:{ev["Fa"] + 1}:{st(ga.strand)}',
                                   'r1,r2', 'r3', 'YES_LDAS', '0.1045', 'GT', '1.9086', 'AG', '1.7232', '["INTRACHROMOSOMAL[chr1:0.1Mb]"]']))
            ev['star_ok'] = ev['good'] and not ev['unknown_gene']
            common_map = 0 if ev['good'] else rng.choice([1, 0])
            uniq = rng.choice([5, 6, 40]) if ev['good'] else rng.choice([4, 0]) if common_map == 0 else 10
            unver = rng.random() < 0.5
            fc.append('\t'.join([gd.name, ga.name, 'known', str(common_map), '12', str(uniq), '21', 'BOWTIE+STAR',
                                 f'{gd.chrom.replace("chr", "")}:{ev["Ld"] + 1}:{st(gd.strand)}', f'{ga.chrom.replace("chr", "")}:{ev["Fa"] + 1}:{st(ga.strand)}',
                                 (gid_d.split('.')[0] if unver else gid_d), (ga.id.split('.')[0] if unver else ga.id), '', '', 'ACGT*ACGT', 'in-frame']))
            ev['fc_ok'] = common_map <= 0 and uniq >= 5 and not ev['unknown_gene']
            conf = rng.choice(['low', 'medium', 'high'])
            sr1 = rng.choice([1, 5]) if ev['good'] else rng.choice([0, 3])
            sr2 = rng.choice([1, 7]) if ev['good'] else 0
            sd = st(gd.strand)
            sd_f = sd if not ev['antisense'] else st(-gd.strand)
            ar.append('\t'.join([gd.name, ga.name, f'{sd}/{sd_f}', f'{st(ga.strand)}/{st(ga.strand)}', f'{gd.chrom}:{ev["Ld"] + 1}', f'{ga.chrom}:{ev["Fa"] + 1}',
                                 'CDS', 'intron', 'translocation', str(sr1), str(sr2), '3', '50', '40', conf, 'in-frame', '.', '.', '.', '.',
                                 gid_d, ga.id, '.', '.', 'downstream', 'upstream', 'duplicates(3)', 'ACGT|ACGT', '.', 'r1,r2']))
            lv = {'low': 0, 'medium': 1, 'high': 2}
            ev['ar_ok'] = sr1 >= 1 and sr2 >= 1 and lv[conf] >= lv[thr['min_confidence']] and not ev['unknown_gene'] and not ev['antisense']
        Path(f'{wd}/star.txt').write_text('\n'.join(star) + '\n')
        Path(f'{wd}/fc.txt').write_text('\n'.join(fc) + '\n')
        Path(f'{wd}/arriba.txt').write_text('\n'.join(ar) + '\n')
        outputs = {}
        for tool, fn, inp, extra in (('star', parse_star_fusion, 'star.txt', {'min_est_j': thr['min_est_j']}),
                                     ('fc', parse_fusion_catcher, 'fc.txt', {'max_common_mapping': 0, 'min_spanning_unique': 5}),
                                     ('ar', parse_arriba, 'arriba.txt', {'min_split_read1': 1, 'min_split_read2': 1, 'min_confidence': thr['min_confidence']})):
            a = drivers.ref_namespace(wd)
            a.command, a.input_path, a.output_path, a.source, a.skip_failed = tool, Path(wd) / inp, Path(wd) / f'{tool}.gvf', 'Fusion', False
            for k, v in extra.items():
                setattr(a, k, v)
            try:
                with drivers.quiet():
                    fn(a)
            except Exception as ex:
                bad('parser-crash', f'{tool}: {type(ex).__name__}: {str(ex)[:200]}; rows {[(e["modes"], e["gl"], e["gf"]) for e in fusions]}')
                continue
            recs = [parse_line(l) for l in open(a.output_path) if not l.startswith('#')] if a.output_path.exists() else []
            outputs[tool] = recs
            counters[f'{tool}_runs'] = 1
            # expected records
            want = set()
            for ev in fusions:
                if not ev[f'{tool}_ok']:
                    continue
                gd, ga = ev['gd'], ev['ga']
                dts = [t for t in gd.txs if t.exons[0][0] <= ev['gl'] < t.exons[-1][1]]
                ats = [t for t in ga.txs if t.exons[0][0] <= ev['gf'] < t.exons[-1][1]]
                for dt in dts:
                    for at in ats:
                        want.add((gd.id, ev['gl'] + 2, dt.id, ga.id, at.id, ev['gf'] + 1))
            got = set()
            for chrom_, pos, vid, refb, altb, attrs in recs:
                got.add((chrom_, int(pos), attrs['TRANSCRIPT_ID'], attrs['ACCEPTER_GENE_ID'], attrs['ACCEPTER_TRANSCRIPT_ID'],
                         int(attrs['ACCEPTER_POSITION'])))
                if altb != '<FUSION>':
                    bad('fusion-alt', f'{tool}: {vid} ALT {altb}')
            counters['records'] = counters.get('records', 0) + len(got)
            if got != want:
                bad('fusion-record-set', f'{tool} (1-based POS = first excluded donor base, ACCEPTER_POSITION = first acceptor base): missing {sorted(want - got)[:3]} '
                                         f'unexpected {sorted(got - want)[:3]}')
            # the sequence each record denotes under the GVF semantics == direct construction from the genome
            for chrom_, pos, vid, refb, altb, attrs in recs:
                d, a_ = ref.tx_by_id(attrs['TRANSCRIPT_ID']), ref.tx_by_id(attrs['ACCEPTER_TRANSCRIPT_ID'])
                rec = gvfgen.Fusion(d.gene, d, int(pos) - 1, a_.gene, a_, int(attrs['ACCEPTER_POSITION']) - 1, refb)
                bb = cv.fusion_backbone(ref, rec, [])
                ev = [e for e in fusions if e['gd'] is d.gene and e['ga'] is a_.gene and e['gl'] + 1 == int(pos) - 1 and e['gf'] == int(attrs['ACCEPTER_POSITION']) - 1]
                if not ev:
                    continue
                direct = direct_fused(ref, d, a_, ev[0]['Ld'], ev[0]['Fa'])
                counters['sequences'] = counters.get('sequences', 0) + 1
                if bb is None or direct is None:
                    if (bb is None) != (direct is None):
                        bad('fusion-sequence-undefined', f'{tool} {vid}')
                    continue
                if bb.seq != direct:
                    bad('fusion-sequence-differs', f'{tool} {vid}: GVF semantics give {len(bb.seq)} nt, direct construction {len(direct)} nt '
                                                   f'(modes {ev[0]["modes"]}, strands {d.gene.strand}/{a_.gene.strand})')
        # ---- end to end: callVariant on one parser's GVF; fusion-labelled peptides must be digestion products
        tool = rng.choice(list(outputs)) if outputs else None
        if tool and outputs[tool] and spec.get('e2e', True):
            case = cv.Case()
            case.ref = ref
            case.stratum = 'fusion-e2e'
            case.cfg = cv.gen_config(rng, 'fusion', light=True)
            case.cfg['exception'] = None
            frecs = []
            for chrom_, pos, vid, refb, altb, attrs in outputs[tool][:6]:
                d, a_ = ref.tx_by_id(attrs['TRANSCRIPT_ID']), ref.tx_by_id(attrs['ACCEPTER_TRANSCRIPT_ID'])
                fr = gvfgen.Fusion(d.gene, d, int(pos) - 1, a_.gene, a_, int(attrs['ACCEPTER_POSITION']) - 1, refb)
                fr.id = vid
                frecs.append(fr)
            case.files = [(f'{tool}.gvf', 'Fusion', frecs)]
            try:
                args = cv.cv_namespace(case, wd, [f'{wd}/{tool}.gvf'], out='fusion_peps.fasta')
                fa = drivers.call_variant(args)
                counters['e2e_runs'] = 1
                lim, flags = cv.limits_of(case.cfg), cv.flags_of(case.cfg)
                bbs = {fr.id: cv.fusion_backbone(ref, fr, []) for fr in frecs}
                all_ids = {r[2] for r in outputs[tool]}
                for h, s in fa:
                    for ent in h.split(' '):
                        b = ent.split('|')[0]
                        if b.startswith('FUSION-'):
                            counters['e2e_entries'] = counters.get('e2e_entries', 0) + 1
                            if b not in all_ids:
                                bad('e2e-unknown-fusion-id', ent)
                            elif b in bbs and bbs[b] is not None:
                                may = orc.backbone_peptides(bbs[b], (), lim, flags, must=False)
                                if s not in may:
                                    bad('e2e-fusion-peptide-not-a-product', f'{ent} {s} (tool {tool})')
            except Exception as ex:
                import traceback
                from harness.monitors import c01
                te = {'type': type(ex).__name__, 'msg': str(ex)[:300], 'tb': traceback.format_exc()[-1800:]}
                counters['e2e_callvariant_crashes'] = 1
                if c01.crash_mech(te, {}) != 'TIMEOUT':
                    viol.append({'kind': 'e2e-callvariant-crash', 'mech': c01.crash_mech(te, {}),
                             'msg': f'{tool}: {type(ex).__name__}: {str(ex)[:200]}'})
        feat = (tuple(sorted({e['modes'] for e in fusions})), tuple(sorted({(e['gd'].strand, e['ga'].strand) for e in fusions})),
                any(e['unknown_gene'] for e in fusions), any(e['antisense'] for e in fusions), thr['min_confidence'],
                max(len(g.txs) for g in ref.genes))
        return {'nontrivial': counters.get('records', 0) > 0, 'feature': feat, 'violations': viol, 'counters': counters,
                'sample': {'star_row': star[1][:200], 'arriba_row': ar[1][:160], 'records': {k: len(v) for k, v in outputs.items()},
                           'first_record': outputs.get('star', [[None] * 3])[0][2] if outputs.get('star') else None}}
    finally:
        drivers.rm(wd)


def check(rep, tier, seed, specs=None, n_override=None):
    quick = tier == 'quick'
    if specs is None:
        n = n_override or (4000 if quick else 60000)
        specs = [{'seed': common.hash64('c15', 'fixed' if i < n // 2 else seed, i), 'e2e': i % 2 == 0} for i in range(n)]
    results, lost = common.shard_run('c15', specs, timeout_s=1500 if quick else 6 * 3600)
    rep.rule = ('logical fusions between generated multi-isoform genes (4 strand combinations; donor breakpoint exonic / exon end / intronic / last '
                'transcript base; acceptor breakpoint exonic / exon start / intronic) written in all three tool formats (breakpoint = last donor base / '
                'first acceptor base, 1-based; FusionCatcher with unversioned gene ids and chromosome names without chr), evidence values at the '
                'thresholds, unknown gene ids, antisense Arriba rows. Per parser: emitted (donor tx, acceptor tx, POS, ACCEPTER_POSITION) set == product '
                'of transcripts spanning the breakpoints for the rows that pass; the sequence the record denotes under the GVF semantics == direct '
                'construction from genome coordinates (exon bases up to the breakpoint + retained intron bases + acceptor from the breakpoint); '
                'end to end: callVariant on the emitted GVF, FUSION-labelled peptides must be liberal digestion products of that sequence. '
                'non-trivial = >= 1 record emitted.')
    rep.absorb(results, lost)
    for k in ('star_runs', 'fc_runs', 'ar_runs', 'records', 'sequences', 'e2e_runs', 'e2e_entries', 'par_y_twins'):
        if not rep.counters.get(k):
            rep.inconclusive.append(f'monitor {k} had zero evaluations')
