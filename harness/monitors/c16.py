"""C16 - parseRMATS records reproduce the alternative isoform (SE, A5SS, A3SS, MXE, RI; both strands)."""
from __future__ import annotations
import random
from pathlib import Path

from harness import common, drivers
from harness.gen import refgen
from harness.monitors.c13 import parse_line

LEVEL = 'exploration'

HEAD = {
    'SE': 'ID\tGeneID\tgeneSymbol\tchr\tstrand\texonStart_0base\texonEnd\tupstreamES\tupstreamEE\tdownstreamES\tdownstreamEE\tID\tIJC_SAMPLE_1\tSJC_SAMPLE_1\tIJC_SAMPLE_2\tSJC_SAMPLE_2\tIncFormLen\tSkipFormLen\tPValue\tFDR\tIncLevel1\tIncLevel2\tIncLevelDifference',
    'A5SS': 'ID\tGeneID\tgeneSymbol\tchr\tstrand\tlongExonStart_0base\tlongExonEnd\tshortES\tshortEE\tflankingES\tflankingEE\tID\tIJC_SAMPLE_1\tSJC_SAMPLE_1\tIJC_SAMPLE_2\tSJC_SAMPLE_2\tIncFormLen\tSkipFormLen\tPValue\tFDR\tIncLevel1\tIncLevel2\tIncLevelDifference',
    'MXE': 'ID\tGeneID\tgeneSymbol\tchr\tstrand\t1stExonStart_0base\t1stExonEnd\t2ndExonStart_0base\t2ndExonEnd\tupstreamES\tupstreamEE\tdownstreamES\tdownstreamEE\tID\tIJC_SAMPLE_1\tSJC_SAMPLE_1\tIJC_SAMPLE_2\tSJC_SAMPLE_2\tIncFormLen\tSkipFormLen\tPValue\tFDR\tIncLevel1\tIncLevel2\tIncLevelDifference',
    'RI': 'ID\tGeneID\tgeneSymbol\tchr\tstrand\triExonStart_0base\triExonEnd\tupstreamES\tupstreamEE\tdownstreamES\tdownstreamEE\tID\tIJC_SAMPLE_1\tSJC_SAMPLE_1\tIJC_SAMPLE_2\tSJC_SAMPLE_2\tIncFormLen\tSkipFormLen\tPValue\tFDR\tIncLevel1\tIncLevel2\tIncLevelDifference',
}
HEAD['A3SS'] = HEAD['A5SS']


def gen2genomic(gene, s, e):
    """gene interval [s, e) -> genomic [lo, hi)."""
    return (gene.start + s, gene.start + e) if gene.strand == 1 else (gene.end - e, gene.end - s)


def seq_of(gs, exons):
    return ''.join(gs[s:e] for s, e in exons)


def apply_record(gs, tx, rec):
    """Apply one emitted GVF record (own parse) to the transcript under the documented semantics.
    Returns the resulting transcript sequence or None if it is not applicable."""
    chrom_, pos, vid, refb, alt, attrs = rec
    pos0 = int(pos) - 1
    tseq = seq_of(gs, tx.exons)
    if alt == '<DEL>':
        s, e = int(attrs['START']) - 1, int(attrs['END'])
        ts, tl = tx.gene2tx(s), tx.gene2tx(e - 1)
        if ts is None or tl is None:
            return None
        return tseq[:ts] + tseq[tl + 1:]
    if alt == '<INS>':
        ta = tx.gene2tx(pos0)
        if ta is None:
            return None
        ds, de = int(attrs['DONOR_START']) - 1, int(attrs['DONOR_END'])
        return tseq[:ta + 1] + gs[ds:de] + tseq[ta + 1:]
    if alt == '<SUB>':
        s, e = int(attrs['START']) - 1, int(attrs['END'])
        ts, tl = tx.gene2tx(s), tx.gene2tx(e - 1)
        if ts is None or tl is None:
            return None
        ds, de = int(attrs['DONOR_START']) - 1, int(attrs['DONOR_END'])
        return tseq[:ts] + gs[ds:de] + tseq[tl + 1:]
    return None


def make_events(rng, ref):
    """Clean events relative to a transcript T: (type, row fields, tx, alternative exon list, novel?)."""
    events = []
    for gene in ref.genes:
        junctions = {t.id: set(zip([e for _, e in t.exons[:-1]], [s for s, _ in t.exons[1:]])) for t in gene.txs}
        all_j = set().union(*junctions.values()) if junctions else set()
        all_exons = {ex for t in gene.txs for ex in t.exons}
        for T in gene.txs:
            ex = T.exons
            n = len(ex)
            for _ in range(3):
                typ = rng.choice(['SE-del', 'SE-ins', 'A5SS', 'A3SS', 'MXE', 'RI-ins', 'RI-del'])
                ev = None
                if typ == 'SE-del' and n >= 3:
                    i = rng.randrange(1, n - 1)
                    U, E, D = ex[i - 1], ex[i], ex[i + 1]
                    alt = ex[:i] + ex[i + 1:]
                    ev = dict(kind='SE', exon=E, up=U, down=D, alt=alt, novel_junctions=[(U[1], D[0])], form='skip')
                elif typ == 'SE-ins' and n >= 2:
                    i = rng.randrange(0, n - 1)
                    U, D = ex[i], ex[i + 1]
                    if D[0] - U[1] < 12:
                        continue
                    s = rng.randint(U[1] + 3, D[0] - 7)
                    e = rng.randint(s + 3, D[0] - 3)
                    E = (s, e)
                    if any(a < e and s < b for a, b in all_exons):
                        continue
                    alt = ex[:i + 1] + [E] + ex[i + 1:]
                    ev = dict(kind='SE', exon=E, up=U, down=D, alt=alt, novel_junctions=[(U[1], s), (e, D[0])], form='inc')
                elif typ in ('A5SS', 'A3SS') and n >= 2:
                    # in transcript (gene) orientation: A5SS moves the END of an exon (donor site), flanking exon downstream;
                    # A3SS moves the START of an exon (acceptor site), flanking exon upstream
                    if typ == 'A5SS':
                        i = rng.randrange(0, n - 1)
                        X, F = ex[i], ex[i + 1]
                        if rng.random() < 0.5:      # T has the long form -> alternative is shorter
                            if X[1] - X[0] < 8:
                                continue
                            new_end = rng.randint(X[0] + 3, X[1] - 3)
                            longx, shortx = X, (X[0], new_end)
                            alt = ex[:i] + [shortx] + ex[i + 1:]
                            nj = [(new_end, F[0])]
                            form = 'short'
                        else:
                            if F[0] - X[1] < 8:
                                continue
                            new_end = rng.randint(X[1] + 3, F[0] - 3)
                            longx, shortx = (X[0], new_end), X
                            alt = ex[:i] + [longx] + ex[i + 1:]
                            nj = [(new_end, F[0])]
                            form = 'long'
                    else:
                        i = rng.randrange(1, n)
                        X, F = ex[i], ex[i - 1]
                        if rng.random() < 0.5:
                            if X[1] - X[0] < 8:
                                continue
                            new_start = rng.randint(X[0] + 3, X[1] - 3)
                            longx, shortx = X, (new_start, X[1])
                            alt = ex[:i] + [shortx] + ex[i + 1:]
                            nj = [(F[1], new_start)]
                            form = 'short'
                        else:
                            if X[0] - F[1] < 8:
                                continue
                            new_start = rng.randint(F[1] + 3, X[0] - 3)
                            longx, shortx = (new_start, X[1]), X
                            alt = ex[:i] + [longx] + ex[i + 1:]
                            nj = [(F[1], new_start)]
                            form = 'long'
                    if any(a < longx[1] and longx[0] < b and (a, b) not in (X,) for a, b in all_exons):
                        continue
                    # rMATS names the event by the gene strand: a donor-site change is A5SS on +, and also A5SS on - (it is strand aware)
                    ev = dict(kind=typ, long=longx, short=shortx, flank=F, alt=alt, novel_junctions=nj, form=form)
                elif typ == 'MXE' and n >= 3:
                    i = rng.randrange(1, n - 1)
                    U, E1, D = ex[i - 1], ex[i], ex[i + 1]
                    side = rng.choice(['after', 'before'])
                    if side == 'after':
                        if D[0] - E1[1] < 12:
                            continue
                        s = rng.randint(E1[1] + 3, D[0] - 7)
                        e = rng.randint(s + 3, D[0] - 3)
                    else:
                        if E1[0] - U[1] < 12:
                            continue
                        s = rng.randint(U[1] + 3, E1[0] - 7)
                        e = rng.randint(s + 3, E1[0] - 3)
                    E2 = (s, e)
                    if any(a < e and s < b for a, b in all_exons):
                        continue
                    alt = ex[:i] + [E2] + ex[i + 1:]
                    ev = dict(kind='MXE', e1=E1, e2=E2, up=U, down=D, alt=alt, novel_junctions=[(U[1], s), (e, D[0])], form='second')
                elif typ == 'RI-ins' and n >= 2:
                    i = rng.randrange(0, n - 1)
                    U, D = ex[i], ex[i + 1]
                    if any(a < D[0] and U[1] < b and not (U[1] < a and b < D[0]) for a, b in all_exons):
                        continue        # an annotated exon overlaps the intron boundary (cassette exons of sibling isoforms strictly
                        #                 inside the intron are allowed: the event then concerns only isoforms joining U and D directly)
                    alt = ex[:i] + [(U[0], D[1])] + ex[i + 2:]
                    ev = dict(kind='RI', ri=(U[0], D[1]), up=U, down=D, alt=alt, novel_junctions=[], form='retained', retained=(U[0], D[1]))
                elif typ == 'RI-del' and n >= 1:
                    i = rng.randrange(0, n)
                    X = ex[i]
                    if X[1] - X[0] < 24:
                        continue
                    a = rng.randint(X[0] + 6, X[1] - 14)
                    b = rng.randint(a + 6, X[1] - 6)
                    U, D = (X[0], a), (a and b, X[1])
                    D = (b, X[1])
                    alt = ex[:i] + [U, D] + ex[i + 1:]
                    ev = dict(kind='RI', ri=X, up=U, down=D, alt=alt, novel_junctions=[(a, b)], form='spliced')
                if ev is None:
                    continue
                # novelty: none of the novel junctions is annotated in any isoform (and for RI retention no exon spans it)
                if any(j in all_j for j in ev['novel_junctions']):
                    continue
                if ev['form'] == 'retained' and any(a <= ev['retained'][0] and ev['retained'][1] <= b for a, b in all_exons):
                    continue
                ev.update(tx=T, gene=gene, typ=typ)
                events.append(ev)
    return events


def alt_for(tx, ev):
    """The event's alternative form applied to another transcript of the gene that carries the same
    exons consecutively (None when it does not: then the record is not constrained by this event)."""
    ex = list(tx.exons)

    def idx_of(seq_):
        n = len(seq_)
        for i in range(len(ex) - n + 1):
            if ex[i:i + n] == list(seq_):
                return i
        return None
    k, form = ev['kind'], ev['form']
    if k == 'SE':
        if form == 'skip':
            i = idx_of([ev['up'], ev['exon'], ev['down']])
            return None if i is None else ex[:i + 1] + ex[i + 2:]
        i = idx_of([ev['up'], ev['down']])
        return None if i is None else ex[:i + 1] + [ev['exon']] + ex[i + 1:]
    if k in ('A5SS', 'A3SS'):
        cur, new = (ev['long'], ev['short']) if form == 'short' else (ev['short'], ev['long'])
        pair = [cur, ev['flank']] if k == 'A5SS' else [ev['flank'], cur]
        i = idx_of(pair)
        if i is None:
            return None
        j = i if k == 'A5SS' else i + 1
        return ex[:j] + [new] + ex[j + 1:]
    if k == 'MXE':
        i = idx_of([ev['up'], ev['e1'], ev['down']])
        return None if i is None else ex[:i + 1] + [ev['e2']] + ex[i + 2:]
    if form == 'retained':
        i = idx_of([ev['up'], ev['down']])
        return None if i is None else ex[:i] + [(ev['up'][0], ev['down'][1])] + ex[i + 2:]
    i = idx_of([ev['ri']])
    return None if i is None else ex[:i] + [ev['up'], ev['down']] + ex[i + 1:]


def event_junctions(ev):
    """Every splice junction (exon end, next exon start; gene coordinates) of the two forms of an event."""
    k = ev['kind']
    if k == 'SE':
        U, E, D = ev['up'], ev['exon'], ev['down']
        return [(U[1], E[0]), (E[1], D[0]), (U[1], D[0])]
    if k == 'A5SS':
        return [(ev['long'][1], ev['flank'][0]), (ev['short'][1], ev['flank'][0])]
    if k == 'A3SS':
        return [(ev['flank'][1], ev['long'][0]), (ev['flank'][1], ev['short'][0])]
    if k == 'MXE':
        U, D = ev['up'], ev['down']
        return [(U[1], ev['e1'][0]), (ev['e1'][1], D[0]), (U[1], ev['e2'][0]), (ev['e2'][1], D[0])]
    return [(ev['up'][1], ev['down'][0])]


def junction_targets(tx, ev):
    """A transcript with INTERJACENT exons (further exons of this isoform between two exons an event junction joins): every
    junction of the event whose two ends are exon boundaries of the transcript, applied to it (everything in between is
    spliced out), is a form the event denotes for this transcript."""
    ex = list(tx.exons)
    ends = {e: i for i, (s, e) in enumerate(ex)}
    starts = {s: i for i, (s, e) in enumerate(ex)}
    out = []
    for a, b in event_junctions(ev):
        if a in ends and b in starts and starts[b] > ends[a] + 1:
            out.append(ex[:ends[a] + 1] + ex[starts[b]:])
    # alternative 5' / 3' splice site while further exons of this isoform lie between the changed exon and the flanking exon:
    # the other form of the changed exon joined directly to the flanking exon (interjacent exons spliced out)
    if ev['kind'] in ('A5SS', 'A3SS'):
        F = ev['flank']
        for cur, new in ((ev['long'], ev['short']), (ev['short'], ev['long'])):
            if cur in ex and F in ex:
                i, j = ex.index(cur), ex.index(F)
                if ev['kind'] == 'A5SS' and j > i + 1:
                    out.append(ex[:i] + [new] + ex[j:])
                elif ev['kind'] == 'A3SS' and i > j + 1:
                    out.append(ex[:j + 1] + [new] + ex[i + 1:])
    return out


def row_of(ev, idx, ijc, sjc):
    gene = ev['gene']
    st = '+' if gene.strand == 1 else '-'

    def G(iv):
        return gen2genomic(gene, *iv)
    base = [str(idx), f'"{gene.id}"', f'"{gene.name}"', gene.chrom, st]
    tail = [str(idx), str(ijc), str(sjc), '', '', '148', '74', 'NA', 'NA', 'NA', '', 'NA']
    k = ev['kind']
    if k == 'SE':
        E, U, D = G(ev['exon']), G(ev['up']), G(ev['down'])
        if gene.strand == -1:
            U, D = D, U
        cols = [E[0], E[1], U[0], U[1], D[0], D[1]]
    elif k in ('A5SS', 'A3SS'):
        L, S, F = G(ev['long']), G(ev['short']), G(ev['flank'])
        cols = [L[0], L[1], S[0], S[1], F[0], F[1]]
    elif k == 'MXE':
        E1, E2, U, D = G(ev['e1']), G(ev['e2']), G(ev['up']), G(ev['down'])
        first, second = sorted([E1, E2])
        if gene.strand == -1:
            U, D = D, U
        cols = [first[0], first[1], second[0], second[1], U[0], U[1], D[0], D[1]]
        ev['e1_is_first'] = first == E1
    else:
        R, U, D = G(ev['ri']), G(ev['up']), G(ev['down'])
        if gene.strand == -1:
            U, D = D, U
        cols = [R[0], R[1], U[0], U[1], D[0], D[1]]
    return '\t'.join(base + [str(c) for c in cols] + tail)


def run_case(spec):
    from moPepGen.cli.parse_rmats import parse_rmats
    rng = random.Random(spec['seed'])
    ref = refgen.make_reference(rng, n_genes=rng.randint(1, 3), isoforms=(1, 2), min_exons=2, max_exons=5, exon_len=(12, 70),
                                intron_len=(20, 70), sec_p=0.0)
    # isoforms with INTERJACENT exons: a copy of a transcript with 1-2 further small exons inside one intron, so that a junction
    # of an event on the plain transcript spans several exons of the sibling
    if spec.get('interjacent', True):
        from harness.model.seqmodel import Tx
        for gene in ref.genes:
            T = gene.txs[0]
            if len(T.exons) < 2 or rng.random() > 0.4:
                continue
            i = rng.randrange(len(T.exons) - 1)
            lo, hi = T.exons[i][1], T.exons[i + 1][0]
            extra = []
            cur = lo + 3
            for _ in range(rng.randint(1, 2)):
                if hi - cur < 9:
                    break
                s_ = rng.randint(cur, hi - 6)
                e_ = rng.randint(s_ + 3, min(hi - 3, s_ + 12))
                if any(a < e_ + 3 and s_ - 3 < b for t in gene.txs for a, b in t.exons):
                    break
                extra.append((s_, e_))
                cur = e_ + 3
            if extra:
                ex2 = sorted(T.exons + extra)
                if all(t.exons != ex2 for t in gene.txs):
                    gene.txs.append(Tx(T.id[:-5] + f'{len(gene.txs) + 30:03d}.1', gene, ex2, False))
    wd = drivers.case_dir('c16-')
    viol = []
    counters = {'cases': 1}
    try:
        refgen.write_reference(ref, wd)
        events = make_events(rng, ref)
        if not events:
            return {'skipped': True}
        min_ijc, min_sjc = rng.choice([1, 3]), rng.choice([1, 3])
        files = {}
        annotated_pairs = {}
        extra_rows = []
        for gene in ref.genes:
            for A in gene.txs:
                for B in gene.txs:
                    if A is B or len(A.exons) != len(B.exons) + 1:
                        continue
                    for i in range(1, len(A.exons) - 1):
                        if A.exons[:i] + A.exons[i + 1:] == B.exons:
                            evp = dict(kind='SE', exon=A.exons[i], up=A.exons[i - 1], down=A.exons[i + 1], gene=gene, tx=A, form='skip',
                                       typ='SE-annotated', alt=B.exons)
                            annotated_pairs.setdefault(gene.id, []).append({'a': A, 'b': B, 'only': len(gene.txs) == 2, 'ev': evp})
                            extra_rows.append(row_of(evp, 9000 + len(extra_rows), min_ijc + 5, min_sjc + 5))
        for idx, ev in enumerate(events):
            ev['pass'] = rng.random() < 0.8
            if ev['pass']:
                ijc, sjc = rng.choice([min_ijc, min_ijc + 5]), rng.choice([min_sjc, min_sjc + 5])
            else:
                ijc, sjc = min_ijc - 1, min_sjc - 1
            ev['idx'] = idx
            files.setdefault(ev['kind'], []).append(row_of(ev, idx, ijc, sjc))
        if extra_rows:
            files.setdefault('SE', []).extend(extra_rows)
        a = drivers.ref_namespace(wd)
        a.command, a.output_path, a.source, a.min_ijc, a.min_sjc = 'parseRMATS', Path(wd) / 'rmats.gvf', 'AltSplice', min_ijc, min_sjc
        for kind, dest in (('SE', 'skipped_exon'), ('A5SS', 'alternative_5_splicing'), ('A3SS', 'alternative_3_splicing'),
                           ('MXE', 'mutually_exclusive_exons'), ('RI', 'retained_intron')):
            if kind in files:
                p = Path(wd) / f'{kind}.JC.txt'
                p.write_text(HEAD[kind] + '\n' + '\n'.join(files[kind]) + '\n')
                setattr(a, dest, p)
            else:
                setattr(a, dest, None)
        try:
            with drivers.quiet():
                parse_rmats(a)
        except Exception as ex:
            return {'nontrivial': True, 'feature': ('crash',), 'counters': counters,
                    'violations': [{'kind': 'parser-crash', 'msg': f'{type(ex).__name__}: {str(ex)[:200]}; events {[(e["typ"], e["gene"].strand) for e in events]}'}]}
        recs = [parse_line(l) for l in open(a.output_path) if not l.startswith('#')] if a.output_path.exists() else []
        counters['records'] = len(recs)
        counters['events'] = len(events)
        by_tx = {}
        for r in recs:
            by_tx.setdefault(r[5]['TRANSCRIPT_ID'], []).append(r)

        def bad(kind, msg):
            if len(viol) < 8:
                viol.append({'kind': kind, 'msg': msg})
        # every record, applied to its transcript, must give the alternative form of a passing event row
        for ev in events:
            ev['rowkey'] = tuple(files[ev['kind']][[e for e in events if e['kind'] == ev['kind']].index(ev)].split('\t')[3:13])
        passing_keys = {ev['rowkey'] for ev in events if ev['pass']}
        for tid, rs in by_tx.items():
            tx = ref.tx_by_id(tid)
            gs = ref.gene_seq(tx.gene)
            targets = set()
            inter_targets = set()
            constrained = False
            for ev in events:
                if ev['gene'] is not tx.gene:
                    continue
                alt = alt_for(tx, ev)
                if alt is not None:
                    constrained = True
                    if ev['rowkey'] in passing_keys:
                        targets.add(seq_of(gs, alt))
                jt = junction_targets(tx, ev)
                if jt:
                    counters['interjacent_targets'] = counters.get('interjacent_targets', 0) + len(jt)
                    if ev['rowkey'] in passing_keys:
                        for alt2 in jt:
                            targets.add(seq_of(gs, alt2))
                            inter_targets.add(seq_of(gs, alt2))
            for r in rs:
                out = apply_record(gs, tx, r)
                counters['applied'] = counters.get('applied', 0) + 1
                if out is None:
                    bad('record-not-applicable', f'{r[2]} {r[4]} on {tid} (strand {tx.gene.strand}, exons {tx.exons}): attrs {r[5]}')
                    continue
                if not constrained:
                    counters['unconstrained_records'] = counters.get('unconstrained_records', 0) + 1
                    continue
                counters['constrained_records'] = counters.get('constrained_records', 0) + 1
                if r[4] in ('<INS>', '<SUB>'):
                    # structural invariant of every insertion / substitution: the donor segment must not repeat bases that the
                    # transcript keeps (a spliced sequence uses every gene base at most once)
                    at_ = r[5]
                    d0, d1 = int(at_['DONOR_START']) - 1, int(at_['DONOR_END'])
                    dele_ = (int(at_['START']) - 1, int(at_['END'])) if r[4] == '<SUB>' else None
                    kept_ = set()
                    for a_, b_ in tx.exons:
                        kept_.update(range(a_, b_))
                    if dele_:
                        kept_ -= set(range(dele_[0], dele_[1]))
                    counters['donor_overlap_checks'] = counters.get('donor_overlap_checks', 0) + 1
                    dup_ = kept_ & set(range(d0, d1))
                    if dup_:
                        bad('record-donor-repeats-kept-bases',
                            f'{r[2]} {r[4]} attrs { {k: v for k, v in at_.items() if k in ("START", "END", "DONOR_START", "DONOR_END")} } on {tid} '
                            f'(strand {tx.gene.strand}, exons {tx.exons}): donor segment overlaps {len(dup_)} bases the transcript keeps')
                        continue
                if out in inter_targets:
                    counters['interjacent_records_confirmed'] = counters.get('interjacent_records_confirmed', 0) + 1
                if out not in targets and r[4] == '<DEL>':
                    # a deletion that realises only HALF of an event junction spanning interjacent exons of this isoform: it starts
                    # (or ends) at the junction's splice site but leaves interjacent exons in place, and the junction it does
                    # create belongs to no passing event
                    ds_, de_ = int(r[5]['START']) - 1, int(r[5]['END'])
                    kept = []
                    for a_, b_ in tx.exons:
                        if b_ <= ds_ or a_ >= de_:
                            kept.append((a_, b_))
                        else:
                            if a_ < ds_:
                                kept.append((a_, ds_))
                            if b_ > de_:
                                kept.append((de_, b_))
                    before_ = [x for x in kept if x[1] <= ds_]
                    after_ = [x for x in kept if x[0] >= de_]
                    if before_ and after_:
                        made = (before_[-1][1], after_[0][0])
                        jpass = {j for e in events if e['gene'] is tx.gene and e['rowkey'] in passing_keys for j in event_junctions(e)}
                        ends_ = {e_ for _, e_ in tx.exons}
                        starts_ = {s_ for s_, _ in tx.exons}
                        if made not in jpass:
                            half = [j for j in jpass if j[0] in ends_ and j[1] in starts_ and ((made[0] == j[0]) != (made[1] == j[1]))
                                    and any(j[0] < x[0] and x[1] < j[1] for x in tx.exons)]
                            if half:
                                bad('interjacent-deletion-wrong-extent',
                                    f'{r[2]} <DEL> {ds_}-{de_} on {tid} (strand {tx.gene.strand}, exons {tx.exons}) creates junction {made}; '
                                    f'the event junction {half[0]} spans interjacent exons of this isoform and is only half realised')
                                continue
                if out not in targets:
                    same = [e for e in events if e['gene'] is tx.gene and alt_for(tx, e) is not None]
                    # a record produced by an event that matches this transcript only partially is not constrained
                    if any(alt_for(tx, e) is None for e in events if e['gene'] is tx.gene and e['rowkey'] in passing_keys):
                        counters['unconstrained_records'] = counters.get('unconstrained_records', 0) + 1
                        continue
                    bad('record-does-not-give-alternative-isoform',
                        f'{r[2]} {r[4]} pos {r[1]} attrs { {k: v for k, v in r[5].items() if k in ("START", "END", "DONOR_START", "DONOR_END")} } on {tid} '
                        f'strand {tx.gene.strand} exons {tx.exons}; events matching this transcript {[(e["typ"], e["form"], alt_for(tx, e)) for e in same]}')
        # thresholds: a row below the thresholds must not produce its alternative form (unless an identical row passes)
        for ev in events:
            tx = ev['tx']
            gs = ref.gene_seq(tx.gene)
            want = seq_of(gs, ev['alt'])
            outs = [apply_record(gs, tx, r) for r in by_tx.get(tx.id, [])]
            if ev['pass']:
                counters['events_passing'] = counters.get('events_passing', 0) + 1
                if want in outs:
                    counters['alternatives_emitted'] = counters.get('alternatives_emitted', 0) + 1
                else:
                    counters['alternatives_not_emitted'] = counters.get('alternatives_not_emitted', 0) + 1   # informational (not claimed by the property)
        # thresholds: parse ONLY the rows that are below the thresholds: nothing may be emitted
        low = [ev for ev in events if not ev['pass'] and ev['rowkey'] not in passing_keys]
        if low:
            a2 = drivers.ref_namespace(wd)
            a2.command, a2.output_path, a2.source, a2.min_ijc, a2.min_sjc = 'parseRMATS', Path(wd) / 'low.gvf', 'AltSplice', min_ijc, min_sjc
            for kind, dest in (('SE', 'skipped_exon'), ('A5SS', 'alternative_5_splicing'), ('A3SS', 'alternative_3_splicing'),
                               ('MXE', 'mutually_exclusive_exons'), ('RI', 'retained_intron')):
                rows = [files[kind][[e for e in events if e['kind'] == kind].index(ev)] for ev in low if ev['kind'] == kind]
                if rows:
                    p2 = Path(wd) / f'{kind}.low.txt'
                    p2.write_text(HEAD[kind] + '\n' + '\n'.join(rows) + '\n')
                    setattr(a2, dest, p2)
                else:
                    setattr(a2, dest, None)
            with drivers.quiet():
                parse_rmats(a2)
            counters['events_below_threshold'] = len(low)
            if a2.output_path.exists():
                lr = [parse_line(l) for l in open(a2.output_path) if not l.startswith('#')]
                if lr:
                    bad('record-emitted-below-threshold', f'rows with ijc/sjc below {min_ijc}/{min_sjc} produced {len(lr)} records, e.g. {lr[0][2]} {lr[0][4]} on {lr[0][5]["TRANSCRIPT_ID"]}')
        # ---- second run: the alternative form becomes ANNOTATED. An extra non-coding isoform carrying every junction of the
        # event's alternative form - but with other outer ends (leading / trailing exons dropped, first exon start / last exon
        # end moved) - is added to the gene; the same rMATS rows must then no longer produce the records of that event.
        chosen = []
        for ev in events:
            if not ev['pass'] or not ev['novel_junctions'] or ev['form'] == 'retained':
                continue
            if any(c['gene'] is ev['gene'] for c in chosen):
                continue
            tx = ev['tx']
            gs = ref.gene_seq(tx.gene)
            want = seq_of(gs, ev['alt'])
            cov_t = {g for a_, b_ in tx.exons for g in range(a_, b_)}
            cov_a = {g for a_, b_ in ev['alt'] for g in range(a_, b_)}
            removed, added = cov_t - cov_a, cov_a - cov_t

            def footprint_matches(r):
                # the record's own coordinates must be those of THIS event (another row of the same or another isoform can give
                # the same sequence through a sequence repeat)
                at = r[5]
                dele = set(range(int(at['START']) - 1, int(at['END']))) if r[4] in ('<DEL>', '<SUB>') else set()
                ins = set(range(int(at['DONOR_START']) - 1, int(at['DONOR_END']))) if r[4] in ('<INS>', '<SUB>') else set()
                return dele == removed and ins == added
            mine = [(tx.id, r[2], r[4], r[1]) for r in by_tx.get(tx.id, [])
                    if apply_record(gs, tx, r) == want and footprint_matches(r)]
            # the records must be attributable to THIS event: no other event of the gene gives the same sequence on tx
            # (repeats make e.g. two different intron choices inside one exon indistinguishable by sequence)
            others = [e2 for e2 in events if e2 is not ev and e2['gene'] is ev['gene'] and alt_for(tx, e2) is not None
                      and alt_for(tx, e2) != list(ev['alt']) and seq_of(gs, alt_for(tx, e2)) == want]
            if mine and others:
                counters['annotated_form_ambiguous'] = counters.get('annotated_form_ambiguous', 0) + 1
                continue
            if mine:
                ev['run1_records'] = mine
                chosen.append(ev)
        if chosen and spec.get('annotate', True):
            import copy
            ref2 = copy.deepcopy(ref)
            shapes = []
            for ev in chosen:
                alt = list(ev['alt'])
                idx = [i for i in range(len(alt) - 1) if (alt[i][1], alt[i + 1][0]) in set(ev['novel_junctions'])]
                i0, i1 = min(idx), max(idx) + 1
                i0 = rng.randint(0, i0)
                i1 = rng.randint(i1, len(alt) - 1)
                sub = alt[i0:i1 + 1]
                mode = rng.choice(['trim-first', 'trim-last', 'both', 'same'])
                if mode in ('trim-first', 'both') and sub[0][1] - sub[0][0] > 6:
                    sub[0] = (sub[0][0] + rng.randint(1, sub[0][1] - sub[0][0] - 4), sub[0][1])
                if mode in ('trim-last', 'both') and sub[-1][1] - sub[-1][0] > 6:
                    sub[-1] = (sub[-1][0], sub[-1][1] - rng.randint(1, sub[-1][1] - sub[-1][0] - 4))
                g2 = ref2.gene_by_id(ev['gene'].id)
                if any(t.exons == sub for t in g2.txs):
                    continue
                from harness.model.seqmodel import Tx
                k = len(g2.txs) + 1
                g2.txs.append(Tx(g2.txs[0].id[:-5] + f'{k + 50:03d}.1', g2, sub, False))
                shapes.append((ev['typ'], ev['form'], mode, i0 > 0, i1 < len(alt) - 1))
                ev['annotated_as'] = sub
            wd2 = drivers.case_dir('c16b-')
            try:
                refgen.write_reference(ref2, wd2)
                a3 = drivers.ref_namespace(wd2)
                a3.command, a3.output_path, a3.source, a3.min_ijc, a3.min_sjc = 'parseRMATS', Path(wd2) / 'rmats.gvf', 'AltSplice', min_ijc, min_sjc
                for kind, dest in (('SE', 'skipped_exon'), ('A5SS', 'alternative_5_splicing'), ('A3SS', 'alternative_3_splicing'),
                                   ('MXE', 'mutually_exclusive_exons'), ('RI', 'retained_intron')):
                    setattr(a3, dest, getattr(a, dest))
                with drivers.quiet():
                    parse_rmats(a3)
                recs2 = {(r[5]['TRANSCRIPT_ID'], r[2], r[4], r[1]) for r in
                         ([parse_line(l) for l in open(a3.output_path) if not l.startswith('#')] if a3.output_path.exists() else [])}
                for ev in chosen:
                    if 'annotated_as' not in ev:
                        continue
                    counters['annotated_form_events'] = counters.get('annotated_form_events', 0) + 1
                    still = [x for x in ev['run1_records'] if x in recs2]
                    if still:
                        bad('record-for-annotated-form',
                            f'{ev["typ"]} {ev["form"]} on {ev["tx"].id} (strand {ev["gene"].strand}, exons {ev["tx"].exons}): records {still[:2]} are still '
                            f'emitted although an annotated isoform with exons {ev["annotated_as"]} carries every junction of the alternative form '
                            f'{ev["alt"]}')
            except Exception as ex:
                bad('parser-crash-second-run', f'{type(ex).__name__}: {str(ex)[:200]}')
            finally:
                drivers.rm(wd2)
        # annotated alternative: an event whose two forms are BOTH annotated isoforms must emit nothing for them
        for gene in ref.genes:
            for ev in annotated_pairs.get(gene.id, []):
                counters['annotated_pair_events'] = counters.get('annotated_pair_events', 0) + 1
                for tx, other in ((ev['a'], ev['b']), (ev['b'], ev['a'])):
                    gs = ref.gene_seq(gene)
                    want = seq_of(gs, other.exons)
                    for r in by_tx.get(tx.id, []):
                        e0 = ev['ev']
                        rid = f"SE_{e0['up'][1]}-{e0['exon'][0]}-{e0['exon'][1]}-{e0['down'][0] + 1}"
                        if r[2] == rid:
                            bad('record-for-fully-annotated-event', f'{r[2]} {r[4]} on {tx.id}: all three junctions of this event are annotated '
                                                                    f'({ev["a"].id} {ev["a"].exons} / {ev["b"].id} {ev["b"].exons})')
        feat = (tuple(sorted({(e['typ'], e['form'], e['gene'].strand) for e in events})), min_ijc, min_sjc, max(len(g.txs) for g in ref.genes))
        return {'nontrivial': bool(recs), 'feature': feat, 'violations': viol, 'counters': counters,
                'sample': {'events': [(e['typ'], e['form'], e['gene'].strand, e['tx'].exons, e['alt']) for e in events[:2]],
                           'records': [f'{r[2]} {r[4]} {r[5]}' for r in recs[:2]]}}
    finally:
        drivers.rm(wd)


def check(rep, tier, seed, specs=None, n_override=None):
    quick = tier == 'quick'
    if specs is None:
        n = n_override or (8000 if quick else 100000)
        specs = [{'seed': common.hash64('c16', 'fixed' if i < n // 2 else seed, i)} for i in range(n)]
    results, lost = common.shard_run('c16', specs, timeout_s=1500 if quick else 6 * 3600)
    rep.rule = ('generated genes (both strands, 1-2 isoforms, 2-5 exons) x rMATS events constructed FROM a transcript and its alternative exon list: '
                'SE (exon present -> skip; exon absent -> include), A5SS / A3SS (long <-> short, both directions), MXE (exon swapped for an unannotated '
                'one on either side), RI (retain an intron; splice a retained one); only novel alternative forms; read counts at / above / below the '
                'thresholds. Oracle: each emitted record applied to the transcript under the documented <DEL>/<INS>/<SUB> semantics must give exactly '
                'the sequence of the alternative exon list; a passing event must emit it, a failing one must not. non-trivial = >= 1 record emitted; '
                'distinct = set of (event type, direction, strand).')
    rep.absorb(results, lost)
    for k in ('records', 'events', 'applied', 'events_passing', 'constrained_records', 'alternatives_emitted', 'events_below_threshold', 'annotated_form_events'):
        if not rep.counters.get(k):
            rep.inconclusive.append(f'monitor {k} had zero evaluations')
