"""C01 - callVariant completeness: MUST (definitional, conservative reading) is a subset of the output;
node-collapsing parameters never change the result."""
from harness import common
from harness.monitors import cvmon, cvplan

LEVEL = 'exploration'


def run_case(spec):
    return cvmon.judge_case(spec, do_collapse_pair=True)


def check(rep, tier, seed, specs=None, n_override=None):
    quick = tier == 'quick'
    if specs is None:
        nf, nr = (2400, 1200) if quick else (40000, 120000)
        if n_override:
            nf, nr = n_override, 0
        specs = cvplan.specs('C01', seed, nf, nr)
    results, lost = common.shard_run('c01', specs, timeout_s=1500 if quick else 6 * 3600)
    rep.rule = ('generated reference (1-3 genes, both strands, coding/non-coding, NF flags, Sec, multi-isoform) x '
                'GVF records (SNV/indel/MNV clusters at start/stop/Sec/junction sites, AS del/ins/sub with nested '
                'intronic variants, fusions with exonic/intronic breakpoints and variants on both partners, circRNA/ciRNA '
                'with variants) x configuration (35 enzymes, exception, miscleavage, length/mass limits, SECT, W2F, '
                'coding-novel-ORF, collapse knobs); every MUST-compatible haplotype enumerated (<= 6000); '
                'non-trivial = MUST non-empty; distinct = feature vector (stratum, record kinds, strand, coding, NF, Sec, '
                'enzyme, exception, miscleavage, flags). Each case is run twice with different collapse knobs. '
                'Not demanded (MAY-MUST gap): records touching the first 3 nt after the start, junction-spanning records, '
                'touching records of different class, records overlapping a Sec codon or the last codon of an mRNA_end_NF CDS, '
                'novel ORFs of coding transcripts, open C-terminal peptides of NF/circular molecules, Met-removed forms of cds_start_NF.')
    for r in results:
        if r.get('skipped'):
            rep.count('skipped')
            for k, v in (r.get('counters') or {}).items():
                rep.count(k, v)
            continue
        if r.get('error'):
            rep.add_violation('harness-exception', r['error'][-1500:], r.get('spec'))
            continue
        rep.add_case(bool(r.get('nontrivial')), r.get('feature'), r.get('sample'))
        rep.add_class_case((r.get('spec') or {}).get('stratum'))
        for k, v in (r.get('counters') or {}).items():
            rep.count(k, v)
        spec = r.get('spec')
        if r.get('tool_error'):
            te = r['tool_error']
            if crash_mech(te, r) == 'TIMEOUT':
                rep.count('tool_timeouts')
                continue
            rep.count('tool_crashes')
            rep.add_violation('tool-crash', f"callVariant raised {te['type']}: {te['msg']} (MUST has {r.get('n_must')} peptides)\n"
                              f"{te['tb'][-700:]}", spec, mech=crash_mech(te, r), detail=r.get('describe'))
            continue
        for p in r.get('missing_exc') or []:
            rep.add_violation('missing', p, spec, mech='KF-CTX')
        for m, ps in (r.get('missing_kf') or {}).items():
            for p in ps:
                rep.add_violation('missing', p, spec, mech=m)
        if r.get('missing'):
            rep.add_violation('missing-peptides', f"{len(r['missing'])} MUST peptides absent from the FASTA: {r['missing'][:6]}",
                              spec, detail=r.get('describe'))
        if r.get('collapse_diff'):
            rep.add_violation('collapse-changes-output', f"outputs differ between collapse settings {r.get('collapse_cfg')}: "
                              f"{r['collapse_diff'][:6]}", spec, mech='KF-CIRC-LAP-MIX' if r.get('collapse_diff_lapmix') else 'KF-NESTED' if r.get('has_nested') else ('KF-CTX' if (r.get('collapse_diff_ctx') or (r.get('feature') or {}).get('rule', '').startswith('pepsin')) else None),
                              detail=r.get('describe'))
        if r.get('collapse_error') and 'Failed to finish transcript' in r['collapse_error']:
            # the second run (other collapse setting) exhausted the wall-clock limit: never a verdict
            rep.count('tool_timeouts')
        elif r.get('collapse_error'):
            rep.add_violation('collapse-run-crash', r['collapse_error'], spec, detail=r.get('describe'))
    if lost:
        rep.inconclusive.append(f'{len(lost)} cases lost')
    tot = rep.counters.get('may_peptides', 0)
    rep.extra['gap_fraction'] = round(rep.counters.get('gap_peptides', 0) / tot, 4) if tot else None
    rep.extra['cases_with_empty_gap'] = rep.counters.get('cases_empty_gap', 0)
    if rep.counters.get('tool_timeouts', 0) > max(5, 0.02 * max(1, rep.evaluations)):
        rep.inconclusive.append(f"{rep.counters['tool_timeouts']} cases hit the per-transcript wall-clock limit")
    if not rep.counters.get('collapse_pairs'):
        rep.inconclusive.append('collapse-pair monitor had zero evaluations')
    rep.min_nontrivial = 50 if specs and len(specs) > 200 else 1


def crash_mech(te, r=None):
    msg, tb = te.get('msg', ''), te.get('tb', '')
    if 'Downstream node becomes empty' in msg:
        return 'KF-CRASH-DOWNSTREAM-EMPTY'
    if 'No reference edge was found' in msg and r and r.get('has_nested'):
        return 'KF-NESTED'
    if 'Failed to finish transcript' in msg:
        # the per-transcript wall-clock limit (90 s, all retries) was exhausted: a wall-clock event, never a verdict by itself
        return 'KF-CIRC-HANG' if 'call_peptide_circ_rna' in tb else 'TIMEOUT'
    if te.get('type') == 'IndexError' and 'call_peptide_fusion' in tb and 'TVGNode.py' in tb and '_get_nth_rf_index' in tb:
        return 'KF-CRASH-FUSION-EMPTY-NODE'
    return None
