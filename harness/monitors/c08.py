"""C08 - callNovelORF equals the definitional ORF digest; the ORF FASTA lists the attributed ORFs."""
from harness import common
from harness.monitors import orfmon

LEVEL = 'exploration'


def run_case(spec):
    return orfmon.novel_case(spec)


def check(rep, tier, seed, specs=None, n_override=None):
    quick = tier == 'quick'
    if specs is None:
        n = n_override or (12000 if quick else 200000)
        specs = [{'seed': common.hash64('c08', 'fixed' if i < n // 2 else seed, i)} for i in range(n)]
    results, lost = common.shard_run('c08', specs, timeout_s=1500 if quick else 6 * 3600)
    rep.rule = ('generated references (1-4 genes, 1-2 isoforms, coding/non-coding mix, biotypes incl. ones on the default exclusion list, short '
                'transcripts, overlapping/nested ORFs, ORFs running off the transcript end) x cleavage settings (35 enzymes except pepsin, exception, '
                'miscleavage, limits) x --orf-assignment x --w2f-reassignment x --coding-novel-orf x inclusion/exclusion biotype files x --min-tx-length. '
                'Oracle: own transcript selection + every ATG in three frames to the next stop or transcript end -> own digest -> minus canonical pool '
                '(two-sided: MUST subset of output subset of MAY); ORF FASTA: ids unique, tx[start:end] translates to the listed sequence, every ORF a '
                'peptide is attributed to is listed. non-trivial = MUST non-empty; distinct = option vector.')
    rep.absorb(results, lost)
    for k in ('novel_cases', 'novel_peptides', 'orf_records'):
        if not rep.counters.get(k):
            rep.inconclusive.append(f'monitor {k} had zero evaluations')
