"""Shared worker-side code of the callVariant monitors (C01 completeness, C02 soundness,
C03 header witnesses, C04 hygiene): one execution, all judgments; each monitor module turns the
judgments of its own property into violations."""
from __future__ import annotations
import os
import traceback

from harness import cvengine as cv, drivers
from harness.model import oracle as orc, digest as dg


def execute(case, wd, paths, out='out.fasta', **over):
    args = cv.cv_namespace(case, wd, paths, out=out, **over)
    fa = drivers.call_variant(args)
    table = str(args.output_path)[:-len('.fasta')] + '_peptide_table.txt'
    return fa, table


def judge_case(spec, do_collapse_pair=False, do_headers=False, do_table=False):
    case = cv.build_case(spec)
    if case is None:
        return {'skipped': True, 'counters': {'skipped_cases': 1}}
    wd = drivers.case_dir('cv-')
    res = {'feature': None, 'nontrivial': False, 'violations': [], 'counters': {}}
    keep = False
    try:
        paths = cv.write_case(case, wd)
        try:
            o = cv.oracle_sets(case)
        except OverflowError:
            return {'skipped': True, 'counters': {'too_many_haplotypes': 1}}
        res['feature'] = cv.case_feature(case)
        try:
            fa, table = execute(case, wd, paths)
        except Exception as e:      # the tool crashed on a valid input: that is the observation
            res['tool_error'] = {'type': type(e).__name__, 'msg': str(e)[:300],
                                 'tb': traceback.format_exc()[-1800:]}
            res['n_must'] = len(o['must'])
            res['nontrivial'] = bool(o['must'])
            res['describe'] = cv.describe(case)
            res['has_nested'] = any(e.tag == 'nested-donor' for bb in o['bbs'] for e in bb.edits)
            return res
        out = [s for _, s in fa]
        outset = set(out)
        res['n_out'] = len(outset)
        res['n_must'] = len(o['must'])
        res['n_may'] = len(o['may'])
        res['n_hap'] = o['n_hap']
        res['gap'] = len(o['may'] - o['must'] - o['canon'] - set().union(*[ev['ref'] for _, ev in o['per']] or [set()]))
        res['nontrivial'] = bool(o['must'])
        res['missing'] = sorted(o['must'] - outset)
        res['spurious'] = sorted(outset - o['may'])
        res['in_canon'] = sorted(outset & o['canon'])
        # D13 classification: does the discrepancy disappear when the cleavage exception is disregarded?
        if (res['missing'] or res['spurious']) and o['lim'].has_context():
            o2 = cv.oracle_sets(case, lim=o['lim'].mixed_copy('robust')) if res['missing'] else {'must': set()}
            o3 = cv.oracle_sets(case, lim=o['lim'].mixed_copy('mixed')) if res['spurious'] else {'may': set()}
            res['missing_exc'] = [p for p in res['missing'] if p not in o2['must']]
            res['spurious_exc'] = [p for p in res['spurious'] if p in o3['may']]
            res['missing'] = [p for p in res['missing'] if p in o2['must']]
            res['spurious'] = [p for p in res['spurious'] if p not in o3['may']]
        res['missing_kf'], res['spurious_kf'] = {}, {}
        hdr_of = {s: h for h, s in fa}
        if res['missing']:
            rest = []
            for p in res['missing']:
                m = mech_missing(o, p)
                if m:
                    res['missing_kf'].setdefault(m, []).append(p)
                else:
                    rest.append(p)
            res['missing'] = rest
        if res['spurious']:
            rest = []
            for p in res['spurious']:
                m = mech_spurious(o, p, hdr_of.get(p))
                if m:
                    res['spurious_kf'].setdefault(m, []).append(p)
                else:
                    rest.append(p)
            res['spurious'] = rest
        # discrepancies that exist ONLY under the cleavage exception: re-run tool and oracle with the exception off
        if (res['missing'] or res['spurious']) and o['lim'].exception and case.cfg['rule'] == 'trypsin':
            try:
                fa_ne, _ = execute(case, wd, paths, out='noexc.fasta', cfg={'exception': None})
                cfg_ne = dict(case.cfg)
                cfg_ne['exception'] = None
                o_ne = cv.oracle_sets(case, cfg_ne)
                out_ne = {s for _, s in fa_ne}
                if not (o_ne['must'] - out_ne) and not (out_ne - o_ne['may']):
                    res['missing_exc'] = res.get('missing_exc', []) + res['missing']
                    res['spurious_exc'] = res.get('spurious_exc', []) + res['spurious']
                    res['missing'], res['spurious'] = [], []
                    res['counters'] = dict(res.get('counters') or {})
                    res['exc_only_rerun'] = True
            except Exception:
                pass
        res['dup_seq'] = len(out) - len(outset)
        lim = o['lim']
        res['bad_limits'] = sorted(p for p in outset if not dg.ok_peptide(p, lim)
                                   and not (len(p) >= lim.min_length and len(p) <= lim.max_length and 'X' not in p
                                            and '*' not in p and abs(dg.mass(p) - lim.min_mw) < 1e-6))
        res['counters'] = {'cases': 1, 'out_peptides': len(outset), 'must_peptides': len(o['must']),
                           'may_peptides': len(o['may']), 'haplotypes': o['n_hap'],
                           'gap_peptides': res['gap'], 'cases_empty_gap': int(res['gap'] == 0)}
        if do_collapse_pair:
            alt = {'min_nodes_to_collapse': {1: 30, 3: 1, 30: 3}[case.cfg['min_nodes_to_collapse']],
                   'naa_to_collapse': {1: 5, 3: 1, 5: 3}[case.cfg['naa_to_collapse']]}
            try:
                fa2, _ = execute(case, wd, paths, out='out2.fasta', cfg=alt)
                s2 = {s for _, s in fa2}
                res['collapse_diff'] = sorted(outset ^ s2)[:10]
                if res['collapse_diff'] and o['lim'].has_context():
                    # KF-CTX attribution: EVERY derivation of each differing peptide depends on a context-dependent
                    # cleavage site (absent from the liberal set when such sites are never trusted, present when optional)
                    o_r = cv.oracle_sets(case, lim=o['lim'].mixed_copy('robust'))
                    o_m = cv.oracle_sets(case, lim=o['lim'].mixed_copy('mixed'))
                    # context-affected: demanded only while context sites are trusted (in MUST, not in the robust MUST), or
                    # realizable only when they are optional (outside MAY, inside the mixed MAY); a peptide with another,
                    # undemanded derivation (e.g. a novel ORF of a coding transcript) still counts through its demanded one
                    res['collapse_diff_ctx'] = all(
                        (p in o_m['may'] and p not in o_r['must'] and (p in o['must'] or p not in o['may'])) or
                        (p not in o_r['may'] and p in o_m['may'])
                        for p in (outset ^ s2))
                diff_ = outset ^ s2
                if diff_ and not (diff_ & o['may']):
                    # the settings differ only in UNREALIZABLE peptides (C02's matter): are all of them products of the recorded
                    # circRNA mechanism (laps of a small circle carrying different alleles, KF-CIRC-LAP-MIX)?
                    lim_ = o['lim'].mixed_copy('mixed') if o['lim'].has_context() else o['lim']
                    mixes = [orc.circ_lapmix_peptides(bb, lim_, o['flags']) for bb, _ev in o['per'] if bb.circular]
                    res['collapse_diff_lapmix'] = bool(mixes) and all(any(m is not None and p in m for m in mixes) for p in diff_)
                res['has_nested'] = any(e.tag == 'nested-donor' for bb in o['bbs'] for e in bb.edits)
                res['collapse_cfg'] = alt
                res['counters']['collapse_pairs'] = 1
            except Exception as e:
                res['collapse_error'] = f'{type(e).__name__}: {str(e)[:200]}'
        if do_headers:
            res['has_nested_donor'] = any(e.tag == 'nested-donor' for bb in o['bbs'] for e in bb.edits)
            res['hdr'] = check_headers(case, o, fa)
            res['counters']['header_entries'] = res['hdr']['n']
        if do_table:
            res['table'] = check_table(fa, table)
            res['counters']['table_rows'] = res['table']['rows']
        if res['missing'] or res['spurious'] or res['in_canon'] or res.get('collapse_diff') \
                or (do_headers and res['hdr']['bad']) or (do_table and res['table']['bad']) or res['bad_limits'] \
                or res['dup_seq']:
            res['describe'] = cv.describe(case)
        res['sample'] = {'stratum': case.stratum, 'cfg': {k: case.cfg[k] for k in ('rule', 'exception', 'miscleavage')},
                         'records': [r.line().split('\t')[2] for r in case.recs()][:6],
                         'n_out': len(outset), 'n_must': len(o['must']), 'n_hap': o['n_hap']}
        return res
    finally:
        if not keep:
            drivers.rm(wd)


def check_headers(case, o, fa):
    """C03: every (peptide, entry) pair; entry strings unique in the FASTA."""
    bad = []
    seen = {}
    n = 0
    bymap = {bb.id: bb for bb in o['bbs']}
    known_ids = {}
    for r in case.recs():
        known_ids.setdefault(r.id, []).append(r)
    lim, flags = o['lim'], o['flags']
    for hdr, pep in fa:
        for ent in hdr.split(' '):
            n += 1
            if ent in seen:
                bk = ent.split('|')[0]
                bad.append({'kind': 'duplicate-entry', 'entry': ent, 'pep': pep, 'other': seen[ent],
                            'donor_of_fusion': any(isinstance(r, cv.Fusion) and r.tx.id == bk for r in case.recs())})
                continue
            seen[ent] = pep
            backbone, ids, orf, idx = cv.parse_entry(ent)
            if idx is None:
                bad.append({'kind': 'no-index', 'entry': ent, 'pep': pep})
                continue
            bb = bymap.get(backbone)
            if bb is None:
                bad.append({'kind': 'unknown-backbone', 'entry': ent, 'pep': pep})
                continue
            named = []
            sides_ok = True
            altids = []
            for x in ids:
                side = None
                y = x
                if bb.kind == 'fusion' and (x.startswith('1-') or x.startswith('2-')):
                    side = int(x[0])
                    y = x[2:]
                if y.startswith('SECT-') or y.startswith('W2F-'):
                    altids.append(y)
                    continue
                if y not in known_ids:
                    bad.append({'kind': 'unknown-variant-id', 'entry': ent, 'pep': pep, 'id': y})
                    sides_ok = False
                    break
                if bb.kind == 'fusion':
                    es = [e for e in bb.edits if y in e.ids]
                    # (the same id string can denote records of both partner genes: ids are position-based)
                    if es and side is not None and not any(e.side == side for e in es):
                        bad.append({'kind': 'wrong-fusion-side', 'entry': ent, 'pep': pep, 'id': y})
                        sides_ok = False
                        break
                named.append(y)
            if not sides_ok:
                continue
            # generated identifiers must be permitted by the configuration
            if any(a.startswith('SECT-') for a in altids) and not flags.sect:
                bad.append({'kind': 'sect-id-without-flag', 'entry': ent, 'pep': pep})
                continue
            if any(a.startswith('W2F-') for a in altids) and not flags.w2f:
                bad.append({'kind': 'w2f-id-without-flag', 'entry': ent, 'pep': pep})
                continue
            ok, why = orc.witness(bb, set(named) | set(altids), lim, flags, pep)
            if not ok and lim.has_context():
                ok2, _ = orc.witness(bb, set(named) | set(altids), lim.mixed_copy(), flags, pep)
                if ok2:
                    bad.append({'kind': 'not-witness-exception', 'entry': ent, 'pep': pep})
                    continue
            if not ok:
                # is the sequence at least present in a protein of the haplotype carrying exactly the named records (then only its
                # ends are not cleavage sites there: a cleavage-creating record is missing from the label)?
                ok_any, _ = orc.witness(bb, set(named) | set(altids), lim.mixed_copy('anycut'), flags, pep)
                bad.append({'kind': 'not-witness', 'entry': ent, 'pep': pep, 'why': why, 'boundary_only': bool(ok_any),
                            'repair': minimal_repair(bb, set(named), lim, flags, pep),
                            'circular': bb.circular, 'circle_nt': len(bb.seq) if bb.circular else None,
                            'circ_lapmix': bool(bb.circular and (lambda m: m is not None and pep in m)(
                                orc.circ_lapmix_peptides(bb, lim.mixed_copy('mixed') if lim.has_context() else lim, flags, only_ids=set(named)))),
                            # a named record that exists on this backbone only INSIDE the donor segment of an AS insertion / substitution
                            'names_nested_record': any(
                                any(y in e.ids for e in bb.edits) and all(e.tag == 'nested-donor' for e in bb.edits if y in e.ids)
                                for y in named),
                            'fusion_donor_fs': bb.kind == 'fusion' and any(
                                e.side == 1 and (len(e.alt) - (e.end - e.start)) % 3 != 0 for e in bb.edits)})
    return {'n': n, 'bad': bad}


def minimal_repair(bb, ids, lim, flags, pep, max_size=3):
    """Smallest (add, drop) of record ids turning the entry into a witness; positions relative to the
    peptide are reported so that known-finding predicates can be evaluated."""
    import itertools
    all_ids = set()
    for e in bb.edits:
        all_ids |= e.ids
    others = sorted(all_ids - ids)
    named = sorted(ids)
    f = orc.Flags(sect=flags.sect, w2f=flags.w2f, coding_novel_orf=flags.coding_novel_orf,
                  max_adjacent=flags.max_adjacent)
    if lim.has_context():
        lim = lim.mixed_copy()
    for tot in range(1, max_size + 1):
        for nd in range(0, min(tot, len(named)) + 1):
            na = tot - nd
            if na > len(others):
                continue
            for D in itertools.combinations(named, nd):
                for A in itertools.combinations(others, na):
                    cand = (ids - set(D)) | set(A)
                    ok, _ = orc.witness(bb, cand, lim, f, pep)
                    if ok:
                        return {'add': list(A), 'drop': list(D), 'where': locate(bb, cand, lim, f, pep, set(A), set(D), ids)}
    return None


def locate(bb, ids, lim, flags, pep, added, dropped, orig_ids):
    """Where do the added records lie relative to the peptide (upstream / inside / downstream) in the
    repaired haplotype; are dropped records same-position / adjacent partners of a named record."""
    info = {'added': {}, 'dropped': {}}
    named_edits = [e for e in bb.edits if e.ids <= ids]
    for h in [()] + orc.haplotypes(named_edits) if named_edits else [()]:
        cov = set()
        for e in h:
            cov |= e.ids
        if cov != ids:
            continue
        hap, pmap = orc.apply_edits(bb.seq, h)
        full = hap * 4 if bb.circular else hap
        # find the peptide by translating the three frames
        from harness.model.seqmodel import translate
        pos = None
        for fr in range(3):
            aa = translate(full[fr:])
            import re as _re
            pat = ''.join('[FW]' if c == 'F' else ('[U*]' if c == 'U' else c) for c in pep)
            m = _re.search(pat, aa)
            k = m.start() if m else -1
            if k != -1:
                pos = (fr + 3 * k, fr + 3 * (k + len(pep)))
                break
        if pos is None:
            continue
        info['_pos'], info['_pmap'] = pos, pmap
        for e in h:
            for i in e.ids & added:
                # position of the edit in haplotype coordinates
                d = 0
                for e2 in h:
                    if e2 is e:
                        break
                    d += len(e2.alt) - (e2.end - e2.start)
                hs, he = e.start + d, e.start + d + len(e.alt)
                info['added'][i] = 'upstream' if he <= pos[0] else ('downstream' if hs >= pos[1] else 'inside')
                if bb.circular and info['added'][i] == 'downstream':
                    info['added'][i] = 'upstream'      # on a circle the record is passed in the lap before the peptide's
        break
    def near_named(e, named_ids, skip):
        for e2 in bb.edits:
            if e2 is e or not (e2.ids <= named_ids) or (e2.ids & skip):
                continue
            if e2.start < e.end + 3 and e.start < e2.end + 3:
                return True
        return False
    for i in dropped:
        es = [e for e in bb.edits if i in e.ids]
        rel = 'other'
        if any(near_named(e, orig_ids, {i}) for e in es):
            rel = 'overlapping-or-adjacent-partner'
        elif info.get('_pos') is not None and es:
            q = info['_pmap'](es[0].start)
            if q is None:
                q = info['_pmap'](max(0, es[0].start - 1))
            if q is not None:
                rel = 'upstream' if q < info['_pos'][0] else ('downstream' if q >= info['_pos'][1] else 'inside')
        info['dropped'][i] = rel
    # an added record that sits within 2 nt of a named record (same codon neighbourhood)
    for i in list(info['added']):
        es = [e for e in bb.edits if i in e.ids]
        if info['added'][i] != 'upstream' and any(near_named(e, orig_ids, {i}) for e in es):
            info['added'][i] = 'overlapping-or-adjacent-partner'
    info.pop('_pos', None)
    info.pop('_pmap', None)
    return info


def check_table(fa, table_path):
    """C04: the peptide table lists exactly the (sequence, entry) pairs of the FASTA and every row's
    subsequence equals the stated slice of the peptide."""
    bad = []
    pairs_fa = set()
    for hdr, pep in fa:
        for ent in hdr.split(' '):
            pairs_fa.add((pep, ent))
    rows = drivers.read_peptide_table(table_path) if os.path.exists(table_path) else None
    if rows is None:
        return {'rows': 0, 'bad': [{'kind': 'no-table'}]}
    pairs_tb = set()
    for r in rows:
        if '_raw' in r:
            bad.append({'kind': 'malformed-row', 'row': r['_raw'][:6]})
            continue
        pairs_tb.add((r['sequence'], r['header']))
        try:
            s, e = int(r['start']), int(r['end'])
        except ValueError:
            bad.append({'kind': 'non-integer-slice', 'row': r})
            continue
        if r['sequence'][s:e] != r['subsequence']:
            bad.append({'kind': 'subsequence-mismatch', 'row': {k: r[k] for k in ('sequence', 'header', 'subsequence', 'start', 'end')}})
    if pairs_tb != pairs_fa:
        bad.append({'kind': 'table-fasta-pairs-differ', 'only_fasta': sorted(pairs_fa - pairs_tb)[:5],
                    'only_table': sorted(pairs_tb - pairs_fa)[:5]})
    return {'rows': len(rows), 'bad': bad[:10]}


# ------------------------------------------------------------------------------------------
# Attribution of discrepancies to known findings (mechanism predicates over the witness derivation)

def witness_haplotypes(o, p, must=True):
    """[(backbone, haplotype)] whose digestion yields peptide p (conservative or liberal reading)."""
    lim, flags = o['lim'], o['flags']
    out = []
    for bb, ev in o['per']:
        if must and p not in ev['must']:
            continue
        if not must and p not in ev['may']:
            continue
        haps = ([()] if bb.kind != 'main' else []) + orc.haplotypes(bb.edits)
        for h in haps:
            if must and not (bb.considered and all(e.must for e in h) and orc.compatible_must(h, flags.max_adjacent)):
                continue
            if p in orc.backbone_peptides(bb, h, lim, flags, must, 1e-3 if must else 0.0):
                out.append((bb, h))
    return out


def _start_index(bb):
    return (bb.known_start if bb.coding and bb.known_start is not None else 0) + 3


def mech_missing(o, p):
    """Mechanism id explaining why the tool may miss MUST peptide p, or None."""
    W = witness_haplotypes(o, p, must=True)
    if not W:
        return None
    if all(any(e.tag == 'nested-donor' for e in h) for _, h in W):
        return 'KF-NESTED'

    def start_anchor(bb, h):
        for a in h:
            if a.tag == 'start-anchor':
                if bb.kind != 'main':
                    return True        # the in-place shifted record is then filtered / misplaced in the other graph
                for b in h:
                    if b is not a and a.end <= b.cstart <= a.end + 1:
                        return True
                if any(a.end <= c <= a.end + 1 for c in list(bb.sec) + list(bb.sec_may)):
                    return True        # the shifted record runs into the following Sec codon
        return False
    if all(start_anchor(bb, h) for bb, h in W):
        return 'KF-START-ANCHOR'
    def fusion_both_sides(bb, h):
        # the haplotype runs through an acceptor-side record of a fusion whose donor part CARRIES a frameshifting record
        # (in the haplotype or not: its presence alone makes the acceptor part a subgraph)
        if bb.kind != 'fusion':
            return False
        donor_fs = any(e.side == 1 and (len(e.alt) - (e.end - e.start)) % 3 != 0 for e in bb.edits)
        return donor_fs and any(e.side == 2 for e in h)
    if all(fusion_both_sides(bb, h) for bb, h in W):
        return 'KF-FUSION-ACCEPTOR-VAR'
    def circ_ref_touching(bb, h):
        # the VARIANT-FREE reading of a circRNA whose backbone carries two records that touch or overlap (gap <= 1 nt)
        if not bb.circular or h:
            return False
        es = list(bb.edits)
        return any(a is not b and a.start <= b.start and a.end >= b.start - 1 for a in es for b in es)
    if all(circ_ref_touching(bb, h) for bb, h in W):
        return 'KF-CIRC-REF-ADJACENT'
    flags = o['flags']
    def endnf(bb):
        # a fusion whose donor is an mRNA_end_NF transcript repeats the donor-only peptides of that transcript
        return bb.end_nf or (bb.kind == 'fusion' and bb.tx is not None and bb.tx.coding and bb.tx.mrna_end_nf)
    if flags.sect and all(endnf(bb) for bb, _ in W) and any(bb.kind == 'main' for bb, _ in W):
        f2 = orc.Flags(False, flags.w2f, flags.coding_novel_orf, flags.max_adjacent)
        if not any(p in orc.backbone_peptides(bb, h, o['lim'], f2, True, 1e-3) for bb, h in W):
            return 'KF-SECT-ENDNF'
    return None


def mech_spurious(o, p, header=None):
    """Mechanism id explaining a peptide outside MAY, or None. Content attribution: p is a substring of
    the translation (any frame) of a haplotype that carries a nested AS edit -> truncation at an
    internal node boundary."""
    from harness.model.seqmodel import translate
    if header:
        named = set()
        for ent in header.split(' '):
            named.update(ent.split('|'))
        for bb, ev in o['per']:
            for e in bb.edits:
                if e.tag == 'nested-donor' and (e.ids & named):
                    return 'KF-NESTED'
    if header:
        for ent in header.split(' '):
            f = ent.split('|')
            if f[0].startswith('FUSION-') and any(x.startswith('2-') for x in f):
                bbs = [bb for bb, _ in o['per'] if bb.id == f[0]]
                if bbs and any(e.side == 1 and (len(e.alt) - (e.end - e.start)) % 3 != 0 for e in bbs[0].edits):
                    return 'KF-FUSION-ACCEPTOR-VAR'
    if header:
        lim_ = o['lim'].mixed_copy('mixed') if o['lim'].has_context() else o['lim']
        for ent in header.split(' '):
            b0 = ent.split('|')[0]
            if b0.startswith('CIRC-') or b0.startswith('CI-'):
                for bb, _ev in o['per']:
                    if bb.id == b0:
                        mix = orc.circ_lapmix_peptides(bb, lim_, o['flags'])
                        if mix is not None and p in mix:
                            return 'KF-CIRC-LAP-MIX'
    for bb, ev in o['per']:
        nested = [e for e in bb.edits if e.tag == 'nested-donor']
        if not nested:
            continue
        for h in orc.haplotypes(bb.edits):
            if not any(e.tag == 'nested-donor' for e in h):
                continue
            hap, _ = orc.apply_edits(bb.seq, h)
            for fr in range(3):
                aa = translate(hap[fr:])
                if p in aa or (p[1:] in aa and len(p) > 3) or p.replace('U', '*') in aa:
                    return 'KF-NESTED'
    return None


def ctx_attributable(case, peptides):
    """KF-CTX attribution for relational monitors (outputs of two runs of one input differ): every differing peptide is
    context-affected - demanded only while context-dependent cleavage sites are trusted, or realizable only when they are optional."""
    try:
        o = cv.oracle_sets(case)
        if not o['lim'].has_context() or not peptides:
            return False
        o_r = cv.oracle_sets(case, lim=o['lim'].mixed_copy('robust'))
        o_m = cv.oracle_sets(case, lim=o['lim'].mixed_copy('mixed'))
    except OverflowError:
        return False
    return all((p in o_m['may'] and p not in o_r['must'] and (p in o['must'] or p not in o['may'])) or
               (p not in o_r['may'] and p in o_m['may']) for p in peptides)
