"""C13 - GVF files: lossless round trip (variant and circRNA records) and index-equivalent access;
stale .idx files are rejected."""
from __future__ import annotations
import os
import random
from pathlib import Path

from harness import common, drivers, cvengine as cv
from harness.gen import gvfgen

LEVEL = 'exploration'


def parse_line(line):
    """Own GVF line parser: (chrom, pos, id, ref, alt, attrs dict)."""
    f = line.rstrip('\n').split('\t')
    attrs = {}
    for kv in f[7].split(';'):
        if not kv:
            continue
        k, v = kv.split('=', 1)
        attrs[k] = v.strip('"')
    return f[0], f[1], f[2], f[3], f[4], attrs


def run_case(spec):
    from moPepGen import seqvar, circ
    from moPepGen.seqvar import GVFMetadata
    from moPepGen.seqvar.VariantRecordPoolOnDisk import VariantRecordPoolOnDisk, VariantRecordPoolOnDiskOpener
    from moPepGen.cli.index_gvf import index_gvf as _index_gvf
    import argparse
    rng = random.Random(spec['seed'])
    case = None
    for k in range(5):
        case = cv.build_case({'seed': common.hash64(spec['seed'], k), 'stratum': None})
        if case is not None:
            break
    if case is None:
        return {'skipped': True}
    wd = drivers.case_dir('c13-')
    viol = []
    counters = {'cases': 1}
    try:
        # ---------- files: shuffle records into 1-3 files per family, interleaving transcripts
        fam = {}
        for r in case.recs():
            fam.setdefault(r.family, []).append(r)
        # duplicate some small records under other transcripts to create interleaved runs
        files = []
        unicode_src = rng.random() < 0.35
        for family, recs in fam.items():
            recs = list(recs)
            mode = rng.choice(['sorted', 'shuffled', 'by-tx'])
            if mode == 'shuffled':
                rng.shuffle(recs)
            elif mode == 'by-tx':
                recs.sort(key=lambda r: (r.tx.id, r.line()))
            nf = rng.randint(1, min(3, len(recs)))
            chunks = [recs[i::nf] for i in range(nf)]
            if rng.random() < 0.3 and len(recs) > 1:       # the same record in two files
                chunks[-1] = chunks[-1] + [recs[0]]
            for ci, ch in enumerate(chunks):
                name = f'{family}{ci}.gvf'
                src = {'small': 'gSNP', 'as': 'AltSplice', 'fusion': 'Fusion', 'circ': 'circRNA'}[family]
                if unicode_src:
                    src += rng.choice(['_Müller', '_患者1', '_é', '_ß2'])
                p = f'{wd}/{name}'
                with open(p, 'w', encoding='utf-8') as fh:
                    fh.write(gvfgen.GVF_HEAD.format(parser=gvfgen.PARSER_OF[family], source=src))
                    for r in ch:
                        line = r.line()
                        if family == 'circ' and len(r.frags) > 1 and rng.random() < 0.5:
                            # fragments listed in another order than ascending gene coordinate (what parseCIRCexplorer writes for
                            # minus-strand genes): POS = start of the first listed fragment, later OFFSETs may be negative
                            order = list(range(len(r.frags)))
                            if rng.random() < 0.5:
                                order.reverse()
                            else:
                                rng.shuffle(order)
                            fr = [r.frags[i] for i in order]
                            intr = sorted(order.index(i - 1) + 1 for i in r.introns)
                            f0 = line.split('\t')
                            f0[1] = str(fr[0][0])
                            f0[7] = (f"OFFSET={','.join(str(s_ - fr[0][0]) for s_, e_ in fr)};"
                                     f"LENGTH={','.join(str(e_ - s_) for s_, e_ in fr)};"
                                     f"INTRON={','.join(str(i) for i in intr)};" + f0[7].split(';', 3)[3])
                            line = '\t'.join(f0)
                            counters['circ_unsorted_fragments'] = counters.get('circ_unsorted_fragments', 0) + 1
                        if unicode_src and rng.random() < 0.3:
                            line = line.replace('GENE_SYMBOL=GENE', 'GENE_SYMBOL=GÉNE')
                        fh.write(line + '\n')
                if rng.random() < 0.2:
                    # no line break after the last record (hand-edited / concatenated files)
                    txt = open(p, encoding='utf-8').read()
                    if txt.endswith('\n') and not txt.rstrip('\n').endswith('INFO'):
                        open(p, 'w', encoding='utf-8').write(txt[:-1])
                        counters['files_without_final_newline'] = counters.get('files_without_final_newline', 0) + 1
                files.append((p, family, ch))
        # ---------- (1) text round trip through the repository reader / writer
        n_rt = 0
        for p, family, ch in files:
            lines0 = [l.rstrip('\n') for l in open(p, encoding='utf-8') if not l.startswith('#')]
            if family == 'circ':
                with open(p, encoding='utf-8') as fh:
                    recs1 = list(circ.io.parse(fh))
                lines1 = [r.to_string() for r in recs1]
                recs2 = [circ.io.line_to_circ_model(l) for l in lines1]
                lines2 = [r.to_string() for r in recs2]
            else:
                recs1 = list(seqvar.io.parse(p))
                lines1 = [r.to_string() for r in recs1]
                recs2 = [seqvar.io.line_to_variant_record(l) for l in lines1]
                lines2 = [r.to_string() for r in recs2]
            n_rt += len(lines0)
            if len(lines1) != len(lines0):
                viol.append({'kind': 'roundtrip-record-count', 'msg': f'{p}: {len(lines0)} lines, {len(lines1)} parsed'})
                continue
            for l0, l1, l2 in zip(lines0, lines1, lines2):
                if l1 != l2:
                    viol.append({'kind': 'roundtrip-not-idempotent', 'msg': f'write(parse(write(r))) differs:\n{l1}\n{l2}'})
                    break
                a, b = parse_line(l0), parse_line(l1)
                if a[:5] != b[:5]:
                    viol.append({'kind': 'roundtrip-fields-changed', 'msg': f'{l0}\n{l1}'})
                    break
                if a[5] != b[5]:
                    viol.append({'kind': 'roundtrip-attributes-changed',
                                 'msg': f'in={l0}\nout={l1}\nlost={sorted(set(a[5].items()) - set(b[5].items()))} '
                                        f'gained={sorted(set(b[5].items()) - set(a[5].items()))}'})
                    break
            # the repository writer: file written from the parsed records parses back to the same lines
            if family != 'circ' and recs1:
                meta = GVFMetadata(parser='parseVEP', source='x', chrom='Gene ID')
                outp = p + '.rewritten.gvf'
                seqvar.io.write(recs1, outp, meta)
                lines3 = [r.to_string() for r in seqvar.io.parse(outp)]
                if lines3 != lines1:
                    viol.append({'kind': 'writer-roundtrip', 'msg': f'{p}: rewritten file parses to different records'})
                os.remove(outp)
            elif family == 'circ' and recs1:
                meta = GVFMetadata(parser='parseCIRCexplorer', source='circRNA', chrom='Gene ID')
                outp = p + '.rewritten.gvf'
                with open(outp, 'w') as fh:
                    circ.io.write(recs1, meta, fh)
                with open(outp) as fh:
                    lines3 = [r.to_string() for r in circ.io.parse(fh)]
                if lines3 != lines1:
                    viol.append({'kind': 'writer-roundtrip', 'msg': f'{p}: rewritten circRNA file parses to different records'})
                os.remove(outp)
        counters['roundtrip_records'] = n_rt
        # ---------- (2) pointer access == linear scan
        paths = [Path(p) for p, _, _ in files]
        indexed = []
        for p in paths:
            if rng.random() < 0.5:
                a = argparse.Namespace(input_path=p, quiet=True, debug_level=1, command='indexGVF')
                with drivers.quiet():
                    _index_gvf(a)
                indexed.append(p)
        expect = {}
        for p, family, ch in files:
            for l in open(p, encoding='utf-8'):
                if l.startswith('#'):
                    continue
                t = parse_line(l)
                expect.setdefault(t[5]['TRANSCRIPT_ID'], []).append(l.rstrip('\n'))
        pool = VariantRecordPoolOnDisk(gvf_files=paths)
        got = {}
        with VariantRecordPoolOnDiskOpener(pool) as pl:
            for key, ptrs in pl.pointers.items():
                for ptr in ptrs:
                    for rec in ptr.load():
                        got.setdefault(key, []).append(rec.to_string())
        counters['index_keys'] = len(expect)
        counters['files_with_idx'] = len(indexed)
        counters['files_without_idx'] = len(paths) - len(indexed)

        def norm(lines):
            return sorted(tuple(sorted(parse_line(l)[5].items())) + parse_line(l)[:5] for l in lines)
        if set(got) != set(expect):
            viol.append({'kind': 'index-keys-differ', 'msg': f'pointer keys {sorted(got)} vs scan {sorted(expect)}'})
        else:
            for k in expect:
                if norm(got[k]) != norm(expect[k]):
                    viol.append({'kind': 'index-records-differ',
                                 'msg': f'transcript {k}: via pointers {len(got[k])} records, linear scan {len(expect[k])}; '
                                        f'first pointer record {got[k][:1]} first scan record {expect[k][:1]}'})
                    break
        # ---------- (3) stale index must be rejected
        if indexed:
            p = rng.choice(indexed)
            data = open(p, 'rb').read()
            mode = rng.choice(['append', 'flip', 'delete-line'])
            if mode == 'append':
                new = data + data.splitlines(keepends=True)[-1]
            elif mode == 'flip':
                i = data.rfind(b'TRANSCRIPT_ID=')
                new = data[:i - 2] + (b'A' if data[i - 2:i - 1] != b'A' else b'C') + data[i - 1:]
            else:
                ls = data.splitlines(keepends=True)
                new = b''.join(ls[:-1]) if len([x for x in ls if not x.startswith(b'#')]) > 1 else data + b'\n'
            open(p, 'wb').write(new)
            # the stale file alone, and inside the whole pool in the original and in a random order (files without an
            # .idx and files with a fresh one before and after it): opening must fail every time
            perm = list(paths)
            rng.shuffle(perm)
            orders = [[p]] + ([list(paths), perm] if len(paths) > 1 else [])
            for order in orders:
                pool2 = VariantRecordPoolOnDisk(gvf_files=order)
                try:
                    with VariantRecordPoolOnDiskOpener(pool2):
                        pass
                    pos = [('stale' if q == p else ('idx' if q in indexed else 'noidx')) for q in order]
                    viol.append({'kind': 'stale-index-accepted',
                                 'msg': f'{p.name} edited ({mode}) after indexing, index still accepted when the pool is opened as {pos}'})
                    break
                except ValueError:
                    counters['stale_rejected'] = counters.get('stale_rejected', 0) + 1
                    if len(order) > 1:
                        counters['stale_rejected_in_pool'] = counters.get('stale_rejected_in_pool', 0) + 1
                        if order.index(p) > 0 and any(q not in indexed for q in order[:order.index(p)]):
                            counters['stale_after_unindexed'] = counters.get('stale_after_unindexed', 0) + 1
                finally:
                    for h in pool2.gvf_handles:
                        h.close()
        feat = (tuple(sorted(fam)), len(files), bool(indexed), unicode_src, len(expect) > 1)
        return {'nontrivial': n_rt > 0, 'feature': feat, 'violations': viol, 'counters': counters,
                'sample': {'files': [os.path.basename(p) for p, _, _ in files], 'records': n_rt,
                           'first': [open(files[0][0], encoding='utf-8').read().splitlines()[-1][:160]]}}
    finally:
        drivers.rm(wd)


def check(rep, tier, seed, specs=None, n_override=None):
    quick = tier == 'quick'
    if specs is None:
        n = n_override or (12000 if quick else 100000)
        specs = [{'seed': common.hash64('c13', 'fixed' if i < n // 2 else seed, i)} for i in range(n)]
    results, lost = common.shard_run('c13', specs, timeout_s=1200 if quick else 4 * 3600)
    rep.rule = ('generated record sets of every kind (SNV/INDEL/MNV, <DEL>/<INS>/<SUB>, <FUSION>, circRNA/ciRNA) written with an own writer '
                '(1-based positions per the format documentation), split into 1-3 files per kind in sorted / shuffled / per-transcript order, '
                'optionally with the same record in two files and non-ASCII characters in the source label and attribute values; '
                '(1) parse -> to_string -> parse -> to_string must be a fixed point and preserve every field and attribute of the input line '
                '(own line parser), also through the repository writers; (2) records reached through byte-offset pointers (half of the files '
                'with an indexGVF .idx) must equal a linear scan per transcript; (3) editing an indexed file must make opening fail, for the file alone and for the whole pool in its original and in a random order. '
                'non-trivial = >= 1 record; distinct = (kinds, #files, idx used, unicode, multi-transcript).')
    rep.absorb(results, lost)
    for k in ('roundtrip_records', 'index_keys', 'stale_rejected', 'stale_rejected_in_pool', 'stale_after_unindexed', 'files_with_idx', 'files_without_idx'):
        if not rep.counters.get(k):
            rep.inconclusive.append(f'monitor {k} had zero evaluations')
