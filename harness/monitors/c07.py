"""C07 - --skip-failed isolates failures; without it failures abort (fault enumeration with
source-free failpoints at the three per-unit callers)."""
from __future__ import annotations
import itertools
import os
import random
import sys

from harness import common, drivers, cvengine as cv
from harness.gen import gvfgen
from harness.monitors import cvmon

LEVEL = 'fault_enumeration'


class Recorder:
    """Wraps the per-unit callers of moPepGen.cli.call_variant_peptide in-process: records the peptides each
    unit returns and raises for the units in `fail`."""

    def __init__(self, fail=()):
        import moPepGen.cli.call_variant_peptide  # noqa
        self.M = sys.modules['moPepGen.cli.call_variant_peptide']
        self.fail = set(fail)
        self.units = {}
        self.order = []
        self.tally = None

    def __enter__(self):
        M = self.M
        self.orig = (M.call_peptide_main, M.call_peptide_fusion, M.call_peptide_circ_rna, M.TallyTable.log)
        rec = self

        def main(*a, **kw):
            u = ('main', str(kw.get('tx_id', a[0] if a else None)))
            rec.order.append(u)
            if u in rec.fail:
                raise RuntimeError(f'VERIF injected failure {u}')
            r = rec.orig[0](*a, **kw)
            rec.units[u] = {str(k) for k in r[0]}
            return r

        def fusion(*a, **kw):
            v = kw.get('variant', a[0] if a else None)
            u = ('fusion', str(v.id))
            rec.order.append(u)
            if u in rec.fail:
                raise RuntimeError(f'VERIF injected failure {u}')
            r = rec.orig[1](*a, **kw)
            rec.units[u] = {str(k) for k in r[0]}
            return r

        def circ(*a, **kw):
            c = kw.get('record', a[0] if a else None)
            u = ('circ', str(c.id))
            rec.order.append(u)
            if u in rec.fail:
                raise RuntimeError(f'VERIF injected failure {u}')
            r = rec.orig[2](*a, **kw)
            rec.units[u] = {str(k) for k in r[0]}
            return r

        def log(tt):
            rec.tally = dict(tt.n_transcripts_failed)
            rec.tally['invalid'] = tt.n_transcripts_invalid
        M.call_peptide_main, M.call_peptide_fusion, M.call_peptide_circ_rna = main, fusion, circ
        M.TallyTable.log = log
        return self

    def __exit__(self, *exc):
        M = self.M
        M.call_peptide_main, M.call_peptide_fusion, M.call_peptide_circ_rna, M.TallyTable.log = self.orig
        return False


def make_case(rng):
    """2-3 transcripts; each may carry small variants (main unit), fusions as donor (2 with different
    breakpoints) and circRNAs; small variants lie up- and downstream of the breakpoints / inside circles."""
    for _ in range(40):
        c = cv.Case()
        c.stratum = 'units'
        c.cfg = cv.gen_config(rng, 'units', light=True)
        c.cfg['exception'] = None
        from harness.gen import refgen
        c.ref = refgen.make_reference(rng, n_genes=rng.randint(2, 3), min_exons=2, max_exons=4, exon_len=(40, 100),
                                      coding_p=0.6, sec_p=0.0, nf_p=0.0)
        small, fus, circ = [], [], []
        genes = c.ref.genes
        for gi, gene in enumerate(genes):
            tx = gene.txs[0]
            gs = c.ref.gene_seq(gene)
            if rng.random() < 0.8:
                small += gvfgen.make_small_variants(rng, c.ref, tx, rng.randint(2, 5), cluster=False, mnv_p=0)
            if rng.random() < 0.7:
                others = [g for g in genes if g is not gene]
                for k in range(rng.randint(1, 2)):
                    acc = rng.choice(others).txs[0]
                    j = rng.randint(max(6, (tx.cds[0] + 6) if tx.coding else 6), tx.tx_len() - 1)
                    dpos = tx.tx2gene(j - 1) + 1
                    apos = acc.tx2gene(rng.randint(0, acc.tx_len() - 10))
                    f = gvfgen.Fusion(gene, tx, dpos, acc.gene, acc, apos, gs[min(dpos, len(gs) - 1)])
                    if all(x.id != f.id for x in fus):
                        fus.append(f)
            if rng.random() < 0.7:
                for k in range(rng.randint(1, 2)):
                    n = rng.randint(1, len(tx.exons))
                    i0 = rng.randint(0, len(tx.exons) - n)
                    cr = gvfgen.Circ(gene, tx, tx.exons[i0:i0 + n])
                    if all(x.id != cr.id for x in circ):
                        circ.append(cr)
        if not (small and (fus or circ)):
            continue
        c.files = [('v.gvf', 'gSNP', small)]
        if fus:
            c.files.append(('f.gvf', 'Fusion', fus))
        if circ:
            c.files.append(('c.gvf', 'circRNA', circ))
        return c
    return None


def run_case(spec):
    if spec.get('kind') == 'natural':
        return natural_case(spec)
    if spec.get('kind') == 'timeout':
        return timeout_case(spec)
    rng = random.Random(spec['seed'])
    case = make_case(rng)
    if case is None:
        return {'skipped': True}
    wd = drivers.case_dir('c07-')
    viol = []
    counters = {'cases': 1}
    try:
        paths = cv.write_case(case, wd)
        with Recorder() as r0:
            fa, _ = cvmon.execute(case, wd, paths, out='ok.fasta', skip_failed=True)
        out0 = {s for _, s in fa}
        units = list(dict.fromkeys(r0.order))
        if len(units) < 2 or len(units) > 14:
            return {'skipped': True, 'counters': {'unit_count_out_of_range': 1}}
        R = r0.units
        tx_of = {}
        for rec in case.recs():
            if isinstance(rec, gvfgen.Fusion):
                tx_of[('fusion', rec.id)] = rec.tx.id
            elif isinstance(rec, gvfgen.Circ):
                tx_of[('circ', rec.id)] = rec.tx.id
        for u in units:
            if u[0] == 'main':
                tx_of[u] = u[1]
        max_k = spec.get('max_faults', 2)
        fault_sets = [frozenset(c) for k in range(1, max_k + 1) for c in itertools.combinations(units, k)]
        if len(fault_sets) > spec.get('max_sets', 60):
            singles = [f for f in fault_sets if len(f) == 1]
            rest = [f for f in fault_sets if len(f) > 1]
            rng.shuffle(rest)
            fault_sets = singles + rest[:spec.get('max_sets', 60) - len(singles)]
        counters['units'] = len(units)
        for F in fault_sets:
            tag = sorted(F)
            # ---- with --skip-failed
            try:
                with Recorder(F) as r1:
                    fa1, _ = cvmon.execute(case, wd, paths, out='f.fasta', skip_failed=True)
            except Exception as e:
                viol.append({'kind': 'skip-failed-run-aborted', 'msg': f'faults {tag}: {type(e).__name__}: {str(e)[:200]}'})
                counters['fault_runs'] = counters.get('fault_runs', 0) + 1
                continue
            counters['fault_runs'] = counters.get('fault_runs', 0) + 1
            out1 = {s for _, s in fa1}
            want_tally = {'variant': len({tx_of[u] for u in F if u[0] == 'main'}),
                          'fusion': len({tx_of[u] for u in F if u[0] == 'fusion'}),
                          'circRNA': len({tx_of[u] for u in F if u[0] == 'circ'})}
            got_tally = {k: (r1.tally or {}).get(k) for k in want_tally}
            if got_tally != want_tally:
                viol.append({'kind': 'tally-wrong', 'msg': f'faults {tag}: tally {got_tally} expected {want_tally}'})
            failed_main_tx = {tx_of[u] for u in F if u[0] == 'main'}
            # other units must be unaffected (a circRNA of a transcript whose main call failed may report more:
            # the main call's peptides are no longer on its denylist)
            for u in units:
                if u in F:
                    continue
                a, b = R.get(u), r1.units.get(u)
                if b is None:
                    viol.append({'kind': 'surviving-unit-not-called', 'msg': f'faults {tag}: unit {u} was not processed'})
                    continue
                if u[0] == 'circ' and tx_of[u] in failed_main_tx:
                    if not a <= b:
                        viol.append({'kind': 'surviving-unit-altered', 'msg': f'faults {tag}: unit {u} lost {sorted(a - b)[:4]}'})
                elif a != b:
                    viol.append({'kind': 'surviving-unit-altered',
                                 'msg': f'faults {tag}: unit {u} returns different peptides: lost {sorted(a - b)[:4]} gained {sorted(b - a)[:4]}'})
            surviving = set().union(*[R[u] for u in units if u not in F and u in R]) if any(u not in F for u in units) else set()
            lower = surviving & out0
            if not lower <= out1:
                viol.append({'kind': 'failure-removes-other-units-peptides',
                             'msg': f'faults {tag}: {sorted(lower - out1)[:5]} (from surviving units) are absent'})
            extra_ok = set().union(*[R.get(('main', t), set()) for t in failed_main_tx]) if failed_main_tx else set()
            if not out1 <= (out0 | extra_ok):
                viol.append({'kind': 'failure-adds-peptides', 'msg': f'faults {tag}: {sorted(out1 - out0 - extra_ok)[:5]}'})
            only_f = set().union(*[R.get(u, set()) for u in F]) - surviving
            leaked = (out1 & only_f) - extra_ok
            if leaked:
                viol.append({'kind': 'failed-unit-peptides-present', 'msg': f'faults {tag}: {sorted(leaked)[:5]}'})
            # ---- without --skip-failed: must abort and leave no FASTA
            if len(F) == 1:
                outp = f'{wd}/nf.fasta'
                if os.path.exists(outp):
                    os.remove(outp)
                try:
                    with Recorder(F):
                        cvmon.execute(case, wd, paths, out='nf.fasta', skip_failed=False)
                    viol.append({'kind': 'failure-not-fatal-without-skip-failed', 'msg': f'fault {tag}: run completed'})
                except Exception:
                    counters['abort_runs'] = counters.get('abort_runs', 0) + 1
                    if os.path.exists(outp):
                        viol.append({'kind': 'fasta-written-despite-abort', 'msg': f'fault {tag}'})
        # ---- CLI with ppft workers: failpoints through the environment; 1-2 failing units, preferably not in the last
        # transcript (so that with --threads > 1 the failure is not the last result of its batch); exit status, FASTA and the
        # printed tally are compared with the in-process run / the expected counts
        if spec.get('cli'):
            import re as _re
            tx_order = list(dict.fromkeys(tx_of[u] for u in units))
            early = [u for u in units if tx_of[u] != tx_order[-1]] or units
            Fc = {rng.choice(early)}
            if len(units) > 1 and rng.random() < 0.6:
                Fc.add(rng.choice(units))
            key = ','.join(u[0] + ':' + u[1] for u in sorted(Fc))
            want = {'Variant': len({tx_of[u] for u in Fc if u[0] == 'main'}),
                    'Fusion': len({tx_of[u] for u in Fc if u[0] == 'fusion'}),
                    'circRNA': len({tx_of[u] for u in Fc if u[0] == 'circ'})}
            with Recorder(Fc) as rr:
                fa2, _ = cvmon.execute(case, wd, paths, out='cmp.fasta', skip_failed=True)
            ref_out = {s for _, s in fa2}
            for t in spec.get('cli_threads', (2, 3)):
                outp = f'{wd}/cli{t}.fasta'
                argv = ['callVariant', '-i'] + paths + ['-g', f'{wd}/genome.fasta', '-a', f'{wd}/annotation.gtf', '-p',
                                                         f'{wd}/proteome.fasta', '-o', outp, '--threads', str(t), '--skip-failed',
                                                         '--max-variants-per-node', '-1', '--additional-variants-per-misc', '-1',
                                                         '--cleavage-exception', 'None']
                rc, so, se = common.run_cli(argv, timeout=600, guard=True, extra_env={'MOPEPGEN_VERIF_FAIL': key})
                counters['cli_fault_runs'] = counters.get('cli_fault_runs', 0) + 1
                if rc is None:
                    continue
                if rc != 0:
                    viol.append({'kind': 'cli-skip-failed-nonzero-exit', 'msg': f'--threads {t} faults {key}: exit {rc}: {se[-300:]}'})
                    continue
                got = {s for _, s in drivers.read_fasta(outp)}
                if got != ref_out:
                    viol.append({'kind': 'cli-fault-output-differs', 'msg': f'--threads {t} faults {key}: CLI output differs from the in-process run'})
                tally = {}
                for name in ('Variant', 'Fusion', 'circRNA'):
                    m = _re.search(name + r' peptides: (\d+)', so + se)
                    if m:
                        tally[name] = int(m.group(1))
                if len(tally) == 3:
                    counters['cli_tally_checks'] = counters.get('cli_tally_checks', 0) + 1
                    if tally != want:
                        viol.append({'kind': 'tally-wrong', 'msg': f'--threads {t} faults {key} (transcript order {tx_order}): printed tally {tally} expected {want}'})
            # the same faults WITHOUT --skip-failed inside ppft workers: the command must fail and leave no FASTA claiming success
            t = rng.choice([2, 3])
            outp = f'{wd}/clinf{t}.fasta'
            argv = ['callVariant', '-i'] + paths + ['-g', f'{wd}/genome.fasta', '-a', f'{wd}/annotation.gtf', '-p',
                                                     f'{wd}/proteome.fasta', '-o', outp, '--threads', str(t),
                                                     '--max-variants-per-node', '-1', '--additional-variants-per-misc', '-1',
                                                     '--cleavage-exception', 'None']
            rc, so, se = common.run_cli(argv, timeout=600, guard=True, extra_env={'MOPEPGEN_VERIF_FAIL': key})
            if rc is not None:
                counters['cli_abort_runs'] = counters.get('cli_abort_runs', 0) + 1
                if rc == 0:
                    viol.append({'kind': 'failure-not-fatal-without-skip-failed',
                                 'msg': f'--threads {t} faults {key} without --skip-failed: exit 0' +
                                        (f', FASTA with {len(drivers.read_fasta(outp))} records written' if os.path.exists(outp) else '')})
                elif os.path.exists(outp):
                    viol.append({'kind': 'fasta-written-despite-abort', 'msg': f'--threads {t} faults {key}: exit {rc} but {outp} exists'})
        feat = (len(units), sum(u[0] == 'main' for u in units), sum(u[0] == 'fusion' for u in units),
                sum(u[0] == 'circ' for u in units), len(fault_sets), bool(spec.get('cli')))
        return {'nontrivial': True, 'feature': feat, 'violations': viol[:12], 'counters': counters,
                'sample': {'units': [list(u) for u in units], 'fault_sets': len(fault_sets), 'first_faults': [sorted(f) for f in fault_sets[:3]],
                           'peptides': len(out0)}}
    finally:
        drivers.rm(wd)


def natural_case(spec):
    """Natural data fault: one transcript X gets a record that makes its whole variant series invalid (a small variant
    placed beyond the end of X's gene, or a fusion of X whose acceptor position lies beyond the acceptor gene). With
    --skip-failed the run must complete, count X as invalid, never call X's units, leave every unit that does not
    involve X unchanged and keep X-only peptides out; without --skip-failed the run must abort without a FASTA."""
    rng = random.Random(spec['seed'])
    case = make_case(rng)
    if case is None:
        return {'skipped': True}
    wd = drivers.case_dir('c07n-')
    viol = []
    counters = {'natural_cases': 1}
    try:
        paths = cv.write_case(case, wd)
        with Recorder() as r0:
            fa, _ = cvmon.execute(case, wd, paths, out='ok.fasta', skip_failed=True)
        out0 = {s for _, s in fa}
        units = list(dict.fromkeys(r0.order))
        R = r0.units
        with_recs = [g.txs[0] for g in case.ref.genes if any(r.tx is g.txs[0] for r in case.recs())]
        if len(with_recs) < 2:
            return {'skipped': True, 'counters': {'natural_too_few_transcripts': 1}}
        X = rng.choice(with_recs)
        if rng.random() < 0.5:
            X = with_recs[-1]          # the LAST transcript in annotation order (its turn comes when a partial batch may be pending)
        kind = spec.get('poison') or rng.choice(['small-beyond-gene', 'fusion-acceptor-beyond-gene'])
        gsX = case.ref.gene_seq(X.gene)
        if kind == 'small-beyond-gene':
            bad = gvfgen.Small(X.gene, X, len(gsX) + rng.randint(1, 30), 'A', 'T')
            gvfgen.write_gvf(f'{wd}/bad.gvf', [bad], 'gINDEL', 'small')
        else:
            acc = rng.choice([g for g in case.ref.genes if g is not X.gene]).txs[0]
            dpos = X.tx2gene(rng.randint(6, X.tx_len() - 1)) + 1
            bad = gvfgen.Fusion(X.gene, X, dpos, acc.gene, acc, len(case.ref.gene_seq(acc.gene)) + rng.randint(5, 60),
                                gsX[min(dpos, len(gsX) - 1)])
            gvfgen.write_gvf(f'{wd}/bad.gvf', [bad], 'Fusion2', 'fusion')
        paths2 = paths + [f'{wd}/bad.gvf']
        # which units involve X: its own units, and fusions of other transcripts whose acceptor is X
        own, dependent = set(), set()
        for u in units:
            if u[0] == 'main' and u[1] == X.id:
                own.add(u)
        for rec in case.recs():
            if isinstance(rec, gvfgen.Fusion):
                if rec.tx is X:
                    own.add(('fusion', rec.id))
                elif rec.acc_tx is X:
                    dependent.add(('fusion', rec.id))
            elif isinstance(rec, gvfgen.Circ) and rec.tx is X:
                own.add(('circ', rec.id))
        own &= set(units)
        dependent &= set(units)
        # ---- without --skip-failed: the fault must abort the run and leave no FASTA. If the run completes the record did
        # not make anything fail (the tool tolerates it), so this is not a failure case and nothing is judged.
        outp = f'{wd}/nf.fasta'
        try:
            cvmon.execute(case, wd, paths2, out='nf.fasta', skip_failed=False)
            return {'nontrivial': False, 'violations': [], 'counters': {'natural_cases': 1, 'natural_poison_tolerated': 1}}
        except Exception:
            counters['natural_abort_runs'] = 1
            if os.path.exists(outp):
                viol.append({'kind': 'fasta-written-despite-abort', 'msg': f'{kind} on {X.id}'})
        # ---- with --skip-failed
        try:
            with Recorder() as r1:
                fa1, _ = cvmon.execute(case, wd, paths2, out='f.fasta', skip_failed=True)
        except Exception as e:
            viol.append({'kind': 'skip-failed-run-aborted-on-invalid-series',
                         'msg': f'{kind} on {X.id} (units of X: {sorted(own)}; fusions into X: {sorted(dependent)}): '
                                f'{type(e).__name__}: {str(e)[:160]}'})
            r1 = None
        counters['natural_runs'] = 1
        if r1 is not None:
            out1 = {s for _, s in fa1}
            if (r1.tally or {}).get('invalid') != 1:
                viol.append({'kind': 'tally-wrong', 'msg': f'{kind} on {X.id}: invalid-transcript tally {(r1.tally or {}).get("invalid")} expected 1'})
            called_own = [u for u in r1.order if (u[0] == 'main' and u[1] == X.id) or u in own]
            if called_own:
                viol.append({'kind': 'invalid-transcript-still-called', 'msg': f'{kind} on {X.id}: units {called_own} were processed'})
            for u in units:
                if u in own or u in dependent:
                    continue
                a, b = R.get(u), r1.units.get(u)
                if b is None:
                    viol.append({'kind': 'surviving-unit-not-called', 'msg': f'{kind} on {X.id}: unit {u} was not processed'})
                elif a != b:
                    viol.append({'kind': 'surviving-unit-altered', 'msg': f'{kind} on {X.id}: unit {u}: lost {sorted(a - b)[:4]} gained {sorted(b - a)[:4]}'})
            surviving = set().union(*[R[u] for u in units if u not in own and u not in dependent and u in R] or [set()])
            if not (surviving & out0) <= out1:
                viol.append({'kind': 'failure-removes-other-units-peptides', 'msg': f'{kind} on {X.id}: {sorted((surviving & out0) - out1)[:5]}'})
            only_x = set().union(*[R.get(u, set()) for u in own] or [set()]) - surviving \
                - set().union(*[r1.units.get(u, set()) for u in dependent] or [set()])
            if out1 & only_x:
                viol.append({'kind': 'failed-unit-peptides-present', 'msg': f'{kind} on {X.id}: {sorted(out1 & only_x)[:5]}'})
        # ---- the same natural fault through the CLI with ppft workers: same FASTA as the in-process --threads 1 run
        if spec.get('cli') and r1 is not None:
            for t in (2, 3):
                outp2 = f'{wd}/ncli{t}.fasta'
                argv = ['callVariant', '-i'] + paths2 + ['-g', f'{wd}/genome.fasta', '-a', f'{wd}/annotation.gtf', '-p',
                                                          f'{wd}/proteome.fasta', '-o', outp2, '--threads', str(t), '--skip-failed',
                                                          '--max-variants-per-node', '-1', '--additional-variants-per-misc', '-1',
                                                          '--cleavage-exception', 'None']
                rc, so, se = common.run_cli(argv, timeout=600)
                counters['natural_cli_runs'] = counters.get('natural_cli_runs', 0) + 1
                if rc is None:
                    continue
                if rc != 0:
                    viol.append({'kind': 'cli-skip-failed-nonzero-exit', 'msg': f'{kind} on {X.id}, --threads {t}: exit {rc}: {se[-300:]}'})
                    continue
                got = {s for _, s in drivers.read_fasta(outp2)}
                if got != out1:
                    viol.append({'kind': 'cli-fault-output-differs',
                                 'msg': f'{kind} on {X.id} (last transcript: {X is with_recs[-1]}), --threads {t}: {len(got)} peptides, '
                                        f'--threads 1 gives {len(out1)}; missing {sorted(out1 - got)[:4]} extra {sorted(got - out1)[:4]}'})
        return {'nontrivial': True, 'feature': ('natural', kind, len(own), len(dependent), len(units)), 'violations': viol[:8],
                'counters': counters,
                'sample': {'natural_fault': kind, 'transcript': X.id, 'own_units': [list(u) for u in sorted(own)],
                           'fusions_into_it': [list(u) for u in sorted(dependent)], 'units': len(units)}}
    finally:
        drivers.rm(wd)


def timeout_case(spec):
    """Timeout fault: the FIRST attempt of one transcript X times out (TimeoutError injected at call_variant_peptides_wrapper) and
    is retried with the reduced limits of the ladder (--max-variants-per-node 7 1 --additional-variants-per-misc 2 0). The
    attempt's failure may cost X peptides, never another transcript: every unit that does not belong to X must return the same
    peptides as in the run without the timeout, and their peptides must all be written."""
    rng = random.Random(spec['seed'])
    case = make_case(rng)
    if case is None:
        return {'skipped': True}
    # clustered variants: peptides carrying two or three records (lost as soon as a reduced limit leaks to their transcript)
    extra = []
    for gene in case.ref.genes:
        tx = gene.txs[0]
        lo, hi = ((tx.cds[0] + 6, tx.cds[1] - 6) if tx.coding else (6, tx.tx_len() - 6))
        if hi - lo > 20:
            extra += gvfgen.make_small_variants(rng, case.ref, tx, rng.randint(2, 4), snv_p=0.9, mnv_p=0, sigma=5,
                                                centre=rng.randint(lo + 8, hi - 8), max_indel=1)
    name, src, small = case.files[0]
    have = {(r.tx.id, r.id) for r in small}
    small = small + [r for r in extra if (r.tx.id, r.id) not in have]
    case.files[0] = (name, src, sorted({(r.tx.id, r.id): r for r in small}.values(), key=lambda v: (v.gene.id, v.gstart, v.gend, v.alt)))
    wd = drivers.case_dir('c07t-')
    viol = []
    counters = {'timeout_cases': 1}
    M = sys.modules.get('moPepGen.cli.call_variant_peptide')
    try:
        paths = cv.write_case(case, wd)
        ladder = dict(max_variants_per_node=(7, 1), additional_variants_per_misc=(2, 0), timeout_seconds=20)
        try:
            with Recorder() as r0:
                fa, _ = cvmon.execute(case, wd, paths, out='ok.fasta', **ladder)
        except Exception as e:
            if 'Failed to finish transcript' in str(e):
                # a real wall-clock timeout on every rung of the ladder (non-terminating circRNA graphs, C01's finding): no verdict
                return {'skipped': True, 'counters': {'timeout_base_run_wallclock': 1}}
            raise
        M = r0.M
        out0 = {s for _, s in fa}
        R0 = r0.units
        txs = [t for t in dict.fromkeys(u[1] for u in r0.order if u[0] == 'main')]
        all_tx = [g.txs[0].id for g in case.ref.genes]

        def owner(u):
            if u[0] == 'main':
                return u[1]
            for t in all_tx:
                if u[1].startswith(f'FUSION-{t}:') or u[1].startswith(f'CIRC-{t}-') or u[1].startswith(f'CI-{t}-'):
                    return t
            return None
        if len({owner(u) for u in R0}) < 2:
            return {'skipped': True, 'counters': {'timeout_too_few_transcripts': 1}}
        owners = [t for t in dict.fromkeys(owner(u) for u in r0.order) if t]
        cand = owners[:-1] or owners          # a transcript that is not the last one dispatched
        for X in rng.sample(cand, min(2, len(cand))):
            orig = M.call_variant_peptides_wrapper
            seen = {'n': 0}

            def wrapper(*a, _X=X, **kw):
                tx_id = kw.get('tx_id', a[0] if a else None)
                if str(tx_id) == _X:
                    seen['n'] += 1
                    if seen['n'] == 1:
                        raise TimeoutError('VERIF injected timeout')
                return orig(*a, **kw)
            M.call_variant_peptides_wrapper = wrapper
            try:
                with Recorder() as r1:
                    fa1, _ = cvmon.execute(case, wd, paths, out=f'to_{X}.fasta', **ladder)
            except Exception as e:
                if 'Failed to finish transcript' in str(e) and seen['n'] > 2:
                    counters['timeout_wallclock'] = counters.get('timeout_wallclock', 0) + 1
                    continue
                viol.append({'kind': 'timeout-retry-crash', 'msg': f'first attempt of {X} timed out: {type(e).__name__}: {str(e)[:200]}'})
                continue
            finally:
                M.call_variant_peptides_wrapper = orig
            counters['timeout_runs'] = counters.get('timeout_runs', 0) + 1
            if seen['n'] < 2:
                viol.append({'kind': 'timeout-not-retried', 'msg': f'{X}: {seen["n"]} attempts'})
                continue
            out1 = {s for _, s in fa1}
            for u, peps in R0.items():
                if owner(u) == X:
                    continue
                counters['timeout_other_units'] = counters.get('timeout_other_units', 0) + 1
                if r1.units.get(u) != peps:
                    viol.append({'kind': 'timeout-retry-alters-other-unit',
                                 'msg': f'first attempt of {X} timed out and was retried with reduced limits; unit {u} of another transcript '
                                        f'returned {len(r1.units.get(u) or [])} peptides instead of {len(peps)}: lost '
                                        f'{sorted(peps - (r1.units.get(u) or set()))[:4]} gained {sorted((r1.units.get(u) or set()) - peps)[:4]}'})
                    break
            keep = set().union(*[p for u, p in R0.items() if owner(u) != X] or [set()]) & out0
            if not keep <= out1:
                viol.append({'kind': 'timeout-retry-loses-other-peptides',
                             'msg': f'first attempt of {X} timed out: peptides of other transcripts missing from the FASTA: {sorted(keep - out1)[:5]}'})
            if not out1 <= out0:
                viol.append({'kind': 'timeout-retry-invents-peptides', 'msg': f'{X}: {sorted(out1 - out0)[:5]}'})
        feat = ('timeout', len(R0), len(owners))
        return {'nontrivial': len(R0) >= 2, 'feature': feat, 'violations': viol, 'counters': counters,
                'sample': {'kind': 'timeout', 'units': len(R0), 'transcripts': owners, 'peptides': len(out0)}}
    finally:
        drivers.rm(wd)


def check(rep, tier, seed, specs=None, n_override=None):
    quick = tier == 'quick'
    if specs is None:
        n = n_override or (32 if quick else 400)
        specs = [{'seed': common.hash64('c07', 'fixed' if i < n // 2 else seed, i), 'max_faults': 2 if quick else 3,
                  'max_sets': 30 if quick else 150, 'cli': (i % 6 == 0)} for i in range(n)]
        nn = (n_override or (64 if quick else 3000))
        specs += [{'kind': 'natural', 'seed': common.hash64('c07n', 'fixed' if i < nn // 2 else seed, i), 'cli': i % 8 == 0}
                  for i in range(nn)]
        nt = (n_override or (48 if quick else 2000))
        specs += [{'kind': 'timeout', 'seed': common.hash64('c07t', 'fixed' if i < nt // 2 else seed, i)} for i in range(nt)]
    results, lost = common.shard_run('c07', specs, timeout_s=1800 if quick else 8 * 3600)
    rep.rule = ('inputs with 2-3 transcripts carrying small variants (main unit), 1-2 fusions as donor and 1-2 circRNAs (<= 14 units); the '
                'fault-free run records the peptides each unit returns (wrappers on call_peptide_main / _fusion / _circ_rna). For EVERY single '
                'fault and every pair (triples in thorough; capped per case): with --skip-failed the run must complete, the tally must count the '
                'failing transcripts per kind, every surviving unit must return the same peptides, surviving peptides must be present, peptides only '
                'the failed units produce must be absent; without --skip-failed every single fault must abort and leave no FASTA. A sample of faults '
                '(1-2 failing units, preferably not in the last transcript) is repeated through the CLI with --threads 2 and 3 (failpoints via '
                'environment inside ppft workers): exit status, FASTA and the printed tally are checked. '
                'Natural data faults: one transcript gets a record that invalidates its whole variant series (small variant beyond the gene end; '
                'fusion whose acceptor position is beyond the acceptor gene): with --skip-failed the run completes, tallies one invalid transcript, '
                'never calls its units, leaves units not involving it unchanged; without --skip-failed it aborts and writes no FASTA. '
                'Timeout faults: the first attempt of one transcript times out (injected) and is retried down the limit ladder 7,1 / 2,0: every '
                'unit of the OTHER transcripts (inputs with clustered variants: peptides carrying 2-3 records) must return the same peptides as '
                'without the timeout and all of them must be written. '
                'non-trivial = case with >= 2 units; distinct = unit-count vector.')
    rep.absorb(results, lost)
    rep.exhaustive = True
    rep.extra['exhaustive_scope'] = 'all single faults of every generated case (and all pairs up to the per-case cap)'
    for k in ('fault_runs', 'abort_runs', 'cli_fault_runs', 'cli_tally_checks', 'cli_abort_runs', 'natural_runs', 'natural_abort_runs', 'natural_cli_runs', 'timeout_runs', 'timeout_other_units'):
        if not rep.counters.get(k):
            rep.inconclusive.append(f'monitor {k} had zero evaluations')
