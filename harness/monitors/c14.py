"""C14 - parseVEP / parseREDItools preserve the genomic event."""
from __future__ import annotations
import argparse
import gzip
import random
from pathlib import Path

from harness import common, drivers
from harness.gen import refgen
from harness.model.seqmodel import revcomp
from harness.monitors.c13 import parse_line

LEVEL = 'exploration'
COMP = str.maketrans('ACGT', 'TGCA')


def rand_seq(rng, n):
    return ''.join(rng.choice('ACGT') for _ in range(n))


def vep_rows(rng, ref):
    """Genomic events (chromosome edits, + strand, 0-based) and their VEP rows in several conventions."""
    events = []
    for gene in ref.genes:
        chrom = ref.chroms[gene.chrom]
        for tx in gene.txs:
            # transcript genomic range
            if gene.strand == 1:
                t0, t1 = gene.start + tx.exons[0][0], gene.start + tx.exons[-1][1]
            else:
                t0, t1 = gene.end - tx.exons[-1][1], gene.end - tx.exons[0][0]
            for _ in range(rng.randint(2, 6)):
                kind = rng.choice(['snv', 'snv', 'del', 'ins', 'ins1', 'mnv'])
                where = rng.choice(['in', 'in', 'in', 'first', 'last', 'start-edge', 'end-edge', 'upstream'])
                L = rng.randint(1, 4) if kind in ('del',) else (rng.randint(3, 5) if kind == 'mnv' else 1)
                if where == 'first':
                    p = t0
                elif where == 'last':
                    p = t1 - L
                elif where == 'start-edge':
                    p = t0 + rng.randint(0, 2)
                elif where == 'end-edge':
                    p = t1 - L - rng.randint(0, 2)
                elif where == 'upstream':
                    # wholly before the first transcribed base of THIS transcript, or spanning it - still inside the gene (the
                    # transcript starts inside its gene: alternative first exon)
                    k = rng.randint(1, 4)
                    if gene.strand == 1:
                        p = t0 - k
                        if p < gene.start + 1:
                            continue
                    else:
                        p = t1 - L + k
                        if p + L > gene.end - 1:
                            continue
                else:
                    p = rng.randint(t0 + 2, max(t0 + 2, t1 - L - 2))
                if p < 1 or p + L + 1 >= len(chrom):
                    continue
                ev = {'gene': gene, 'tx': tx, 'kind': kind, 'where': where}
                if kind == 'snv':
                    alt = rng.choice([b for b in 'ACGT' if b != chrom[p]])
                    ev.update(edit=(p, p + 1, alt), loc=f'{gene.chrom}:{p + 1}', allele=alt)
                elif kind == 'del':
                    ev.update(edit=(p, p + L, ''), loc=f'{gene.chrom}:{p + 1}-{p + L}' if L > 1 else f'{gene.chrom}:{p + 1}', allele='-')
                elif kind == 'ins':        # between p and p+1 (1-based p+1, p+2): location s-(s+1)
                    x = rand_seq(rng, rng.randint(1, 4))
                    ev.update(edit=(p + 1, p + 1, x), loc=f'{gene.chrom}:{p + 1}-{p + 2}', allele=x)
                elif kind == 'ins1':       # single position, allele carries the anchor (either side)
                    x = rand_seq(rng, rng.randint(1, 4))
                    if rng.random() < 0.5:
                        ev.update(edit=(p + 1, p + 1, x), loc=f'{gene.chrom}:{p + 1}', allele=chrom[p] + x)     # start inclusion
                    else:
                        ev.update(edit=(p, p, x), loc=f'{gene.chrom}:{p + 1}', allele=x + chrom[p])             # end inclusion
                else:
                    y = rand_seq(rng, rng.randint(3, 5))
                    if y == chrom[p:p + L]:
                        continue
                    ev.update(edit=(p, p + L, y), loc=f'{gene.chrom}:{p + 1}-{p + L}', allele=y)
                ev['t0'], ev['t1'] = t0, t1
                events.append(ev)
    return events


def vep_line(ev, i):
    g, tx = ev['gene'], ev['tx']
    return '\t'.join([f'var{i}', ev['loc'], ev['allele'], g.id, tx.id, 'Transcript', 'missense_variant', '1', '1', '1', 'A/T', 'gCc/gTc', '-',
                      f'IMPACT=MODERATE;STRAND={g.strand}'])


def expected_gene_seq(ref, gene, edit):
    """Gene sequence re-extracted from the edited chromosome (gene end shifts by the length change)."""
    s, e, alt = edit
    chrom = ref.chroms[gene.chrom]
    new = chrom[:s] + alt + chrom[e:]
    delta = len(alt) - (e - s)
    seq = new[gene.start:gene.end + delta]
    return seq if gene.strand == 1 else revcomp(seq)


def run_case(spec):
    from moPepGen import gtf, dna
    from moPepGen.parser import VEPParser
    from moPepGen.err import TranscriptionStopSiteMutationError, TranscriptionStartSiteMutationError
    from moPepGen.cli.parse_vep import parse_vep
    from moPepGen.cli.parse_reditools import parse_reditools
    rng = random.Random(spec['seed'])
    ref = refgen.make_reference(rng, n_genes=rng.randint(1, 4), isoforms=(1, 3), n_chroms=rng.randint(1, 2), nf_p=0.3,
                                min_exons=1, max_exons=4, exon_len=(15, 80), intron_len=(10, 50),
                                overlap_p=0.35 if spec.get('overlap', True) else 0.0)
    # secondary isoforms that start INSIDE the gene and are tagged cds_start_NF (incomplete 5' end, CDS from their first bases)
    from harness.model.seqmodel import translate as _tr
    for g_ in ref.genes:
        for t_ in g_.txs[1:]:
            if t_.coding or t_.exons[0][0] == 0 or rng.random() < 0.5:
                continue
            sq_ = ref.tx_seq(t_)
            fr_ = rng.randint(0, 2)
            aa_ = _tr(sq_[fr_:])
            k_ = aa_.find('*')
            if k_ == -1:
                k_ = len(aa_)
                t_.mrna_end_nf = True
            if k_ < 5:
                t_.mrna_end_nf = False
                continue
            t_.coding, t_.cds, t_.cds_start_nf, t_.biotype = True, (fr_, fr_ + 3 * k_), True, 'protein_coding'
    wd = drivers.case_dir('c14-')
    viol = []
    counters = {'cases': 1}
    try:
        refgen.write_reference(ref, wd)
        genome = dna.DNASeqDict()
        genome.dump_fasta(f'{wd}/genome.fasta')
        anno = gtf.GenomicAnnotation()
        anno.dump_gtf(f'{wd}/annotation.gtf')

        def bad(kind, msg):
            if len(viol) < 8:
                viol.append({'kind': kind, 'msg': msg})
        # ------------------------------------------------ VEP
        events = vep_rows(rng, ref)
        lines = [vep_line(ev, i) for i, ev in enumerate(events)]
        n_ok = n_rej = 0
        import io
        recs = list(VEPParser.parse(io.StringIO('\n'.join(lines) + '\n'))) if lines else []
        for ev, rec in zip(events, recs):
            gene, tx = ev['gene'], ev['tx']
            gs = ref.gene_seq(gene)
            s, e, alt = ev['edit']
            inside = ev['t0'] < s and e <= ev['t1'] and (e > s or s < ev['t1'])      # strictly after the first transcript base
            touches = s <= ev['t0'] or e >= ev['t1'] or (e == s and (s <= ev['t0'] or s >= ev['t1']))
            try:
                v = rec.convert_to_variant_record(anno, genome)
            except (TranscriptionStopSiteMutationError, TranscriptionStartSiteMutationError):
                n_rej += 1
                if not touches and inside and gene.strand == 1 and s > ev['t0'] + 1 and e < ev['t1'] - 1:
                    bad('vep-interior-event-rejected', f'{ev["kind"]} {ev["loc"]} {ev["allele"]} tx range {ev["t0"]}-{ev["t1"]} strand {gene.strand}')
                continue
            except Exception as ex:
                if touches:
                    n_rej += 1
                    continue
                bad('vep-conversion-crash', f'{ev["kind"]} {ev["where"]} {ev["loc"]} {ev["allele"]} strand {gene.strand}: {type(ex).__name__}: {ex}')
                continue
            n_ok += 1
            # an event with changed bases before the first transcribed base of the named transcript must be rejected
            # (an insertion exactly at the boundary is left open)
            up = (s < ev['t0']) if gene.strand == 1 else (e > ev['t1'])
            if e == s:
                up = (s < ev['t0']) if gene.strand == 1 else (s > ev['t1'])
            if up:
                bad('vep-upstream-event-accepted', f'{ev["kind"]} {ev["loc"]} {ev["allele"]} on {tx.id} (strand {gene.strand}, transcript range '
                                                   f'{ev["t0"]}-{ev["t1"]}, cds_start_NF={tx.cds_start_nf}): a record was emitted for an event that '
                                                   f'starts before the first base of the transcript')
                continue
            st, en = int(v.location.start), int(v.location.end)
            if gs[st:en] != v.ref:
                bad('vep-ref-mismatch', f'{ev["kind"]} {ev["where"]} {ev["loc"]} {ev["allele"]} strand {gene.strand}: REF {v.ref} but gene[{st}:{en}]={gs[st:en]}')
                continue
            got = gs[:st] + v.alt + gs[en:]
            want = expected_gene_seq(ref, gene, ev['edit'])
            if got != want:
                bad('vep-event-not-preserved', f'{ev["kind"]} {ev["where"]} {ev["loc"]} allele {ev["allele"]} strand {gene.strand}: record {st + 1} {v.ref}>{v.alt} '
                                               f'gives a gene sequence different from re-extracting the gene from the edited chromosome')
        counters['vep_events'] = len(events)
        counters['vep_converted'] = n_ok
        counters['vep_rejected'] = n_rej
        # CLI (plain and gz): record count / ids consistent with the API pass
        vp = Path(wd) / ('in.tsv.gz' if rng.random() < 0.5 else 'in.tsv')
        data = '#Uploaded_variation\tLocation\n' + ''.join(l + '\n' for l in lines)
        if vp.suffix == '.gz':
            with gzip.open(vp, 'wt') as fh:
                fh.write(data)
        else:
            vp.write_text(data)
        a = drivers.ref_namespace(wd)
        a.command, a.input_path, a.output_path, a.source, a.skip_failed = 'parseVEP', [vp], Path(wd) / 'vep.gvf', 'gSNP', True
        with drivers.quiet():
            parse_vep(a)
        counters['vep_cli_runs'] = 1
        out = [parse_line(l) for l in open(a.output_path) if not l.startswith('#')] if a.output_path.exists() else []
        if len(out) != n_ok:
            bad('vep-cli-record-count', f'CLI wrote {len(out)} records, API converted {n_ok}')
        for chrom_, pos, vid, refb, altb, attrs in out:
            g = ref.gene_by_id(chrom_)
            gs = ref.gene_seq(g)
            if gs[int(pos) - 1:int(pos) - 1 + len(refb)] != refb:
                bad('vep-cli-ref-mismatch', f'{vid}')
                break
        # ------------------------------------------------ REDItools
        thr = dict(min_coverage_alt=rng.choice([3, 5]), min_frequency_alt=rng.choice([0.1, 0.25]), min_coverage_rna=rng.choice([10, 20]),
                   min_coverage_dna=rng.choice([10, 15]))
        rows = ['Region\tPosition\tReference\tStrand\tCoverage-q30\tMeanQ\tBaseCount[A,C,G,T]\tAllSubs\tFrequency\tgCoverage-q\tgMeanQ\tgBaseCount[A,C,G,T]\tgAllSubs\tgFrequency\tgencode_feat\tgencode_gid\tgencode_tid']
        expect = set()
        order = 'ACGT'
        n_sites = 0
        for gene in ref.genes:
            chrom = ref.chroms[gene.chrom]
            for _ in range(rng.randint(2, 6)):
                p = rng.randint(gene.start, gene.end - 1)
                refb = chrom[p]
                alts = rng.sample([b for b in order if b != refb], rng.randint(1, 2))
                total = rng.choice([thr['min_coverage_rna'] - 1, thr['min_coverage_rna'], thr['min_coverage_rna'] + 1, 40, 100])
                counts = {b: 0 for b in order}
                rest = total
                for b in alts:
                    target = rng.choice([thr['min_coverage_alt'] - 1, thr['min_coverage_alt'], thr['min_coverage_alt'] + 1,
                                         int(thr['min_frequency_alt'] * total), int(thr['min_frequency_alt'] * total) + 1,
                                         max(0, int(thr['min_frequency_alt'] * total) - 1)])
                    target = max(0, min(target, rest))
                    counts[b] = target
                    rest -= target
                counts[refb] = rest
                gcov = rng.choice([str(thr['min_coverage_dna'] - 1), str(thr['min_coverage_dna']), str(thr['min_coverage_dna'] + 5), '-1', '-'])
                # AnnotateTable lists the transcripts whose genomic range contains the site - of EVERY gene overlapping it
                # (overlapping / antisense genes), in no particular order
                txs = []
                for g2 in ref.genes:
                    if g2.chrom != gene.chrom or not g2.start <= p < g2.end:
                        continue
                    gq = g2.genomic2g(p)
                    txs += [t for t in g2.txs if t.exons[0][0] <= gq < t.exons[-1][1] and rng.random() < 0.85]
                if not txs:
                    continue
                rng.shuffle(txs)
                if len({t.gene.id for t in txs}) > 1:
                    counters['redi_multi_gene_sites'] = counters.get('redi_multi_gene_sites', 0) + 1
                sep = rng.choice([',', '&', '$'])
                tid = sep.join(f'{t.id}-transcript' for t in txs)
                if rng.random() < 0.3:
                    tid += sep + f'{gene.id}-gene'
                rows.append('\t'.join([gene.chrom, str(p + 1), refb, '1' if gene.strand == 1 else '0', str(total), '38.5',
                                       '[' + ', '.join(str(counts[b]) for b in order) + ']', ' '.join(refb + b for b in alts),
                                       '0.5', gcov, '30', '-', '-', '-', 'transcript',
                                       sep.join(dict.fromkeys(t.gene.id for t in txs)), tid]))
                n_sites += 1
                tot = sum(counts.values())
                if tot < thr['min_coverage_rna']:
                    continue
                if gcov != '-1' and (gcov == '-' or int(gcov) < thr['min_coverage_dna']):
                    continue
                for b in alts:
                    if counts[b] < thr['min_coverage_alt'] or counts[b] / tot < thr['min_frequency_alt']:
                        continue
                    for t in txs:
                        g = t.gene.genomic2g(p)      # position in the coordinates of the transcript's OWN gene
                        if t.gene2tx(g) is not None:
                            expect.add((t.gene.id, g + 1, t.id, refb, b))
        rp = Path(wd) / 'redi.txt'
        rp.write_text('\n'.join(rows) + '\n')
        a = drivers.ref_namespace(wd)
        a.command, a.input_path, a.output_path, a.source = 'parseREDItools', rp, Path(wd) / 'redi.gvf', 'RNAEditing'
        a.transcript_id_column = 17
        for k, v in thr.items():
            setattr(a, k, v)
        try:
            with drivers.quiet():
                parse_reditools(a)
            got = set()
            if a.output_path.exists():
                for chrom_, pos, vid, refb, altb, attrs in (parse_line(l) for l in open(a.output_path) if not l.startswith('#')):
                    got.add((chrom_, int(pos), attrs['TRANSCRIPT_ID'], refb, altb))
            counters['redi_sites'] = n_sites
            counters['redi_expected_records'] = len(expect)
            if got != expect:
                bad('reditools-record-set', f'thresholds {thr}: missing {sorted(expect - got)[:4]} unexpected {sorted(got - expect)[:4]}')
        except Exception as ex:
            bad('reditools-crash', f'{type(ex).__name__}: {ex}')
        feat = (sorted({g.strand for g in ref.genes}), sorted({ev['kind'] for ev in events}), sorted({ev['where'] for ev in events}),
                vp.suffix, tuple(sorted(thr.items())), bool(expect), n_rej > 0)
        return {'nontrivial': n_ok > 0, 'feature': feat, 'violations': viol, 'counters': counters,
                'sample': {'vep_rows': lines[:3], 'reditools_rows': rows[1:3], 'thresholds': thr, 'converted': n_ok, 'rejected': n_rej}}
    finally:
        drivers.rm(wd)


def check(rep, tier, seed, specs=None, n_override=None):
    quick = tier == 'quick'
    if specs is None:
        n = n_override or (10000 if quick else 100000)
        specs = [{'seed': common.hash64('c14', 'fixed' if i < n // 2 else seed, i)} for i in range(n)]
    results, lost = common.shard_run('c14', specs, timeout_s=1500 if quick else 6 * 3600)
    rep.rule = ('generated references (both strands, multi-isoform, NF tags) x genomic events written as VEP rows: SNV, deletion (allele -), insertion '
                'in both VEP conventions (two-position location; single position with the anchor base at either end), substitutions of 3-5 bases, placed '
                'inside transcripts, on their first/last base and within 2 nt of the ends; oracle: REF == gene sequence at the record position and '
                'applying the record to the gene sequence == re-extracting the gene from the edited chromosome; boundary events may be rejected but '
                'never mis-placed; CLI run on the same rows (plain / gz). REDItools: annotated tables (sites inside overlapping / antisense genes list the transcripts of every gene) with counts at threshold-1 / threshold / '
                'threshold+1 for all four thresholds, multi-transcript annotations with the three separators; expected record set re-implemented. '
                'non-trivial = >= 1 converted VEP event; distinct = (strands, kinds, placements, thresholds ...).')
    rep.absorb(results, lost)
    for k in ('vep_events', 'vep_converted', 'vep_rejected', 'vep_cli_runs', 'redi_sites', 'redi_expected_records', 'redi_multi_gene_sites'):
        if not rep.counters.get(k):
            rep.inconclusive.append(f'monitor {k} had zero evaluations')
