"""C09 - callAltTranslation equals the definitional alt-translation digest (SECT / W2F)."""
from harness import common
from harness.monitors import orfmon

LEVEL = 'exploration'


def run_case(spec):
    if spec.get('kind') == 'reject':
        return orfmon.reject_case(spec)
    return orfmon.alt_case(spec)


def check(rep, tier, seed, specs=None, n_override=None):
    quick = tier == 'quick'
    if specs is None:
        n = n_override or (12000 if quick else 200000)
        specs = [{'seed': common.hash64('c09', 'fixed' if i < n // 2 else seed, i)} for i in range(n)]
        specs += [{'kind': 'reject', 'seed': common.hash64('c09r', i)} for i in range(4)]
    results, lost = common.shard_run('c09', specs, timeout_s=1500 if quick else 6 * 3600)
    rep.rule = ('generated references with 0-3 Sec codons per coding transcript (adjacent, near first/last codon), cds_start_NF / mRNA_end_NF flags x '
                'cleavage settings x the two flags (each alone and both). Oracle per coding transcript: own digest of the annotated ORF with Sec->stop '
                'at each annotated Sec codon and/or every non-empty subset of W->F per peptide, minus the plain digest, minus the canonical pool '
                '(MUST subset of output subset of MAY); every header entry names SECT-<gene pos> at an annotated Sec codon / W2F-<k> at an F of the '
                'peptide and the named events suffice to produce it; running with no flag must be rejected. non-trivial = MUST non-empty.')
    rep.absorb(results, lost)
    for k in ('alt_cases', 'alt_peptides', 'alt_header_entries', 'reject_cases'):
        if not rep.counters.get(k):
            rep.inconclusive.append(f'monitor {k} had zero evaluations')
