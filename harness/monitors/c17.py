"""C17 - parseCIRCexplorer records denote the reported circular RNA (CIRCexplorer2 and 3)."""
from __future__ import annotations
import random
from pathlib import Path

from harness import common, drivers
from harness.gen import refgen
from harness.model.seqmodel import revcomp
from harness.monitors.c13 import parse_line

LEVEL = 'exploration'


def run_case(spec):
    from moPepGen.cli.parse_circexplorer import parse_circexplorer
    from moPepGen import circ
    rng = random.Random(spec['seed'])
    ref = refgen.make_reference(rng, n_genes=rng.randint(1, 3), isoforms=(1, 3), n_chroms=rng.randint(1, 2), min_exons=1, max_exons=5,
                                exon_len=(10, 80), intron_len=(25, 90))
    wd = drivers.case_dir('c17-')
    viol = []
    counters = {'cases': 1}
    try:
        refgen.write_reference(ref, wd)
        ce3 = spec.get('ce3', False)
        srange, erange = rng.choice([(-2, 0), (-3, 1), (0, 0)]), rng.choice([(-100, 5), (-5, 5), (0, 0)])
        min_reads = rng.choice([1, 3])
        min_fpb, min_score = (rng.choice([None, 0.5]), rng.choice([None, 1.0])) if ce3 else (None, None)
        rows, expect = [], []
        for tx in ref.all_txs():
            gene = tx.gene
            chrom = ref.chroms[gene.chrom]
            st = '+' if gene.strand == 1 else '-'

            def G(iv):
                return (gene.start + iv[0], gene.start + iv[1]) if gene.strand == 1 else (gene.end - iv[1], gene.end - iv[0])
            for _ in range(rng.randint(1, 3)):
                kind = rng.choice(['circ', 'circ', 'ci', 'bad-exon'])
                reads = rng.choice([min_reads - 1, min_reads, min_reads + 4])
                fpb, score = rng.choice([0.2, 0.5, 3.0]), rng.choice([0.5, 1.0, 4.0])
                passes = reads >= min_reads and not (min_fpb and fpb < min_fpb) and not (min_score and score < min_score)
                if kind in ('circ', 'bad-exon'):
                    n = rng.randint(1, len(tx.exons))
                    i0 = rng.randint(0, len(tx.exons) - n)
                    variants = [(list(tx.exons[i0:i0 + n]), list(range(i0, i0 + n)))]
                    if kind == 'circ' and n >= 3 and rng.random() < 0.4:
                        # the same back-splice junction with interior exons skipped: several rows of one isoform then share the
                        # record id CIRC-<tx>-<start>:<end> but denote different circles; each row must get its own record
                        drop = set(rng.sample(range(1, n - 1), rng.randint(1, n - 2)))
                        skipped = ([f for j, f in enumerate(variants[0][0]) if j not in drop],
                                   [x for j, x in enumerate(variants[0][1]) if j not in drop])
                        variants = [skipped] if rng.random() < 0.4 else [variants[0], skipped]
                        counters['circ_rows_with_skipped_interior_exons'] = counters.get('circ_rows_with_skipped_interior_exons', 0) + 1
                    for frags, kept_idx in variants:
                        if kind == 'bad-exon':
                            k = rng.randrange(len(frags))
                            s, e = frags[k]
                            if e - s < 4:
                                continue
                            frags[k] = (s + 1, e) if rng.random() < 0.5 else (s, e - 1)     # not an annotated exon
                        blocks = sorted(G(f) for f in frags)
                        start, end = blocks[0][0], blocks[-1][1]
                        sizes = ','.join(str(b - a) for a, b in blocks)
                        offs = ','.join(str(a - start) for a, b in blocks)
                        idx = ','.join(str(x + 1) for x in kept_idx)
                        row = [gene.chrom, start, end, f'circular_RNA/{reads}', 0, st, start, start, '0,0,0', len(frags), sizes, offs, reads,
                               'circRNA', gene.name, tx.id, idx, f'{gene.chrom}:1-2|{gene.chrom}:3-4']
                        want = None
                        if passes and kind == 'circ':
                            seq = ''.join(chrom[a:b] for a, b in blocks)
                            want = {'frags': sorted(frags), 'intron': [], 'seq': seq if gene.strand == 1 else revcomp(seq),
                                    'id': f'CIRC-{tx.id}-{frags[0][0]}:{frags[-1][1]}'}
                        expect.append((tx, kind, passes, want, (start, end)))
                        if ce3:
                            row += [fpb, 1.0, score]
                        rows.append('\t'.join(str(x) for x in row))
                    continue
                else:
                    if len(tx.exons) < 2:
                        continue
                    i = rng.randrange(len(tx.exons) - 1)
                    s, e = tx.exons[i][1], tx.exons[i + 1][0]          # the intron in gene coordinates
                    ds = rng.choice([0, 0, srange[0], srange[1], srange[0] - 2, srange[1] + 2])
                    de = rng.choice([0, 0, erange[1], erange[1] + 3, -rng.randint(1, max(1, min(20, e - s - 4)))])
                    cs, ce_ = s + ds, e + de
                    if ce_ - cs < 3 or cs < tx.exons[i][0] + 1 or ce_ > len(gene) or ce_ > tx.exons[i + 1][1]:
                        continue
                    blk = G((cs, ce_))
                    row = [gene.chrom, blk[0], blk[1], f'circular_RNA/{reads}', 0, st, blk[0], blk[0], '0,0,0', 1, str(blk[1] - blk[0]), '0', reads,
                           'ciRNA', gene.name, tx.id, str(i + 1), f'{gene.chrom}:1-2|{gene.chrom}:3-4']
                    start_ok = srange[0] <= ds <= srange[1]
                    end_ok = erange[0] <= de <= erange[1]
                    # clear accept: both ends inside the tolerance; clear reject: start outside the tolerance, or the end runs into the
                    # next exon beyond the tolerance; otherwise (end well inside the intron but outside the end range) either is allowed
                    verdict = 'accept' if (start_ok and end_ok) else ('reject' if (not start_ok or de > erange[1]) else 'either')
                    want = None
                    if passes and verdict != 'reject':
                        seq = chrom[blk[0]:blk[1]]
                        want = {'frags': [(cs, ce_)], 'intron': [1], 'seq': seq if gene.strand == 1 else revcomp(seq),
                                'id_suffix': f'{tx.id}-{cs}:{ce_}'}
                    expect.append((tx, 'ci-' + verdict, passes, want, blk))
                if ce3:
                    row += [fpb, 1.0, score]
                rows.append('\t'.join(str(x) for x in row))
        if not rows:
            return {'skipped': True}
        inp = Path(wd) / 'circ.txt'
        inp.write_text('\n'.join(rows) + '\n')
        out = Path(wd) / 'circ.gvf'
        # through the real command line (argparse wiring included)
        argv = ['parseCIRCexplorer', '-i', inp, '-o', out, '-a', f'{wd}/annotation.gtf', '--source', 'circRNA', '--min-read-number', min_reads,
                f'--intron-start-range={srange[0]},{srange[1]}', f'--intron-end-range={erange[0]},{erange[1]}']
        if ce3:
            argv.append('--circexplorer3')
            if min_fpb:
                argv += ['--min-fpb-circ', min_fpb]
            if min_score:
                argv += ['--min-circ-score', min_score]
        if spec.get('cli', False):
            rc, so, se = common.run_cli(argv, timeout=300)
            counters['cli_runs'] = 1
            if rc != 0:
                return {'nontrivial': True, 'feature': ('cli-crash', ce3), 'counters': counters,
                        'violations': [{'kind': 'parser-crash', 'msg': f'exit {rc}: {se[-400:]}'}]}
            log = so + se
        else:
            import argparse
            a = drivers.ref_namespace(wd)
            a.command, a.input_path, a.output_path, a.source = 'parseCIRCexplorer', inp, out, 'circRNA'
            a.circexplorer3, a.min_read_number, a.min_fbr_circ, a.min_circ_score = ce3, min_reads, min_fpb, min_score
            a.intron_start_range, a.intron_end_range = f'{srange[0]},{srange[1]}', f'{erange[0]},{erange[1]}'
            try:
                with drivers.quiet():
                    parse_circexplorer(a)
            except Exception as ex:
                return {'nontrivial': True, 'feature': ('crash', ce3), 'counters': counters,
                        'violations': [{'kind': 'parser-crash', 'msg': f'{type(ex).__name__}: {str(ex)[:300]}'}]}
            log = ''
        got = []
        if out.exists():
            with open(out) as fh:
                got = list(circ.io.parse(fh))

        def bad(kind, msg):
            if len(viol) < 8:
                viol.append({'kind': kind, 'msg': msg})
        got_by_tx = {}
        for m in got:
            got_by_tx.setdefault(m.transcript_id, []).append(m)
        counters['rows'] = len(rows)
        counters['records'] = len(got)
        n_must = n_reject = 0
        for tx, kind, passes, want, blk in expect:
            gs = ref.gene_seq(tx.gene)
            cands = got_by_tx.get(tx.id, [])

            def matches(m, w):
                fr = sorted((int(f.location.start), int(f.location.end)) for f in m.fragments)
                return fr == w['frags']
            if want is not None:
                hit = [m for m in cands if matches(m, want)]
                must = kind in ('circ', 'ci-accept')
                if must:
                    n_must += 1
                if not hit:
                    if must:
                        bad('expected-circ-record-missing', f'{kind} {tx.id} strand {tx.gene.strand} fragments {want["frags"]} (block {blk}); '
                                                            f'ranges {srange}/{erange}')
                    continue
                m = hit[0]
                # the circular sequence read from the gene == concatenation of the reported genomic blocks in transcript orientation
                seq = ''.join(gs[int(f.location.start):int(f.location.end)] for f in sorted(m.fragments, key=lambda f: int(f.location.start)))
                if seq != want['seq']:
                    bad('circ-sequence-differs', f'{m.id} strand {tx.gene.strand}')
                if 'id' in want and m.id != want['id']:
                    bad('circ-id', f'{m.id} expected {want["id"]}')
                if 'id_suffix' in want and not m.id.endswith(want['id_suffix']):
                    bad('circ-id', f'{m.id} expected ...{want["id_suffix"]}')
                counters['sequence_checks'] = counters.get('sequence_checks', 0) + 1
            else:
                n_reject += 1
                # rows that must be skipped: below threshold / unknown exon / outside the tolerance
                G2 = None
                for m in cands:
                    fr = sorted((int(f.location.start), int(f.location.end)) for f in m.fragments)
                    lo, hi = fr[0][0], fr[-1][1]
                    gl = (tx.gene.start + lo, tx.gene.start + hi) if tx.gene.strand == 1 else (tx.gene.end - hi, tx.gene.end - lo)
                    if gl == tuple(blk):
                        # an identical passing row may legitimately produce it
                        if not any(w is not None and e2[0] is tx and tuple(e2[4]) == tuple(blk) for e2 in expect for w in [e2[3]]):
                            bad('row-not-skipped', f'{kind} passes={passes} {tx.id} block {blk} produced {m.id}')
        counters['must_records'] = n_must
        counters['rejected_rows'] = n_reject
        feat = (ce3, srange, erange, min_reads, min_fpb, min_score, tuple(sorted({k for _, k, _, _, _ in expect})),
                tuple(sorted({t.gene.strand for t, *_ in expect})), spec.get('cli', False))
        return {'nontrivial': bool(got), 'feature': feat, 'violations': viol, 'counters': counters,
                'sample': {'rows': rows[:2], 'records': [m.to_string() for m in got[:2]], 'ranges': [srange, erange], 'ce3': ce3}}
    finally:
        drivers.rm(wd)


def check(rep, tier, seed, specs=None, n_override=None):
    quick = tier == 'quick'
    if specs is None:
        n = n_override or (8000 if quick else 100000)
        specs = [{'seed': common.hash64('c17', 'fixed' if i < n // 2 else seed, i), 'ce3': i % 3 == 0, 'cli': i % (150 if quick else 500) < 2}
                 for i in range(n)]
    results, lost = common.shard_run('c17', specs, timeout_s=1500 if quick else 6 * 3600)
    rep.rule = ('generated annotations (both strands, 1-3 isoforms) x CIRCexplorer2 / CIRCexplorer3 known-circRNA rows built from transcripts: exon circles '
                '(BED12-like blocks of 1..n consecutive exons), ciRNA rows with boundary jitter inside / outside --intron-start-range / --intron-end-range, '
                'rows with a block that is not an annotated exon, read numbers / fpb / circ scores around the thresholds. Oracle: emitted fragments == '
                'strand-corrected reported blocks in gene coordinates; sequence read from the gene == concatenated genomic blocks in transcript orientation; '
                'id encodes the back-splice gene coordinates; rows below thresholds, with unknown exons or outside the tolerance produce no record. A sample '
                'is executed through the real command line. non-trivial = >= 1 record emitted.')
    rep.absorb(results, lost)
    for k in ('rows', 'records', 'must_records', 'rejected_rows', 'sequence_checks', 'cli_runs'):
        if not rep.counters.get(k):
            rep.inconclusive.append(f'monitor {k} had zero evaluations')
