"""Case planning shared by the callVariant monitors: a fixed regression corpus (independent of
VERIF_SEED) plus a seeded random part, strata in round-robin."""
from harness import common, cvengine as cv

import os

STRATA = ['small', 'small', 'as', 'as_nested', 'fusion', 'fusion_var', 'circ', 'circ_var', 'multi', 'small', 'sec', 'sec', 'units', 'ctx', 'as_nested_fs', 'nc_stoploss', 'fusion_adj', 'fs_pair', 'paralog', 'nf_ends', 'nc_as', 'circ_start']
if os.environ.get('VERIF_STRATA'):          # targeted sweeps (triage only): restrict the strata
    STRATA = os.environ['VERIF_STRATA'].split(',')


def specs(prop, seed, n_fixed, n_random, extra=None):
    out = []
    for i in range(n_fixed):
        out.append({'seed': common.hash64('cv-fixed', i), 'stratum': STRATA[i % len(STRATA)], 'corpus': 'fixed'})
    for i in range(n_random):
        out.append({'seed': common.hash64('cv-random', prop, seed, i), 'stratum': STRATA[i % len(STRATA)],
                    'corpus': 'random'})
    if extra:
        for s in out:
            s.update(extra)
    return out
