"""C02 - callVariant soundness: every output sequence is in MAY (liberal definitional reading);
complexity limits and timeout-driven retries only remove peptides."""
import os
from harness import common, drivers, cvengine as cv
from harness.monitors import cvmon, cvplan

LEVEL = 'exploration'

LIMIT_SETTINGS = [((7,), (2,)), ((1,), (0,)), ((2,), (1,)), ((3,), (0,)), ((4,), (2,))]


def run_case(spec):
    if spec.get('kind') == 'limits':
        return limits_case(spec)
    return cvmon.judge_case(spec)


def limits_case(spec):
    try:
        return _limits_case(spec)
    except ValueError as e:
        if 'Failed to finish transcript' in str(e):
            # per-transcript wall-clock limit hit by a run without injected timeouts (dense cluster, loaded machine): no verdict
            return {'nontrivial': False, 'violations': [], 'counters': {'limit_cases': 1, 'limit_case_wallclock_timeouts': 1}}
        raise


def _limits_case(spec):
    import sys
    import moPepGen.cli.call_variant_peptide  # noqa
    M = sys.modules['moPepGen.cli.call_variant_peptide']
    case = cv.build_case(dict(spec, stratum='dense', min_var=6, max_var=13))
    if case is None:
        return {'skipped': True}
    wd = drivers.case_dir('c02-')
    res = {'violations': [], 'counters': {'limit_cases': 1}}
    try:
        paths = cv.write_case(case, wd)
        import time
        t0 = time.time()
        base, _ = cvmon.execute(case, wd, paths, out='base.fasta', timeout_seconds=180)
        base = {s for _, s in base}
        if time.time() - t0 > 15:
            # an unlimited run this slow would be repeated nine more times: skipped (budget, not a verdict)
            return {'nontrivial': False, 'violations': [], 'counters': {'limit_cases': 1, 'limit_case_too_slow': 1}}
        res['nontrivial'] = bool(base)
        n_less = 0
        lim0 = cv.limits_of(case.cfg)
        ctx_cache = {}

        def ctx_mech(extra):
            """KF-CTX attribution of peptides that appear only under limits / retries: graphs built under other limits have
            other node boundaries, and context-dependent cleavage sites are evaluated per node (known finding). Pepsin: always
            (its five-residue context); other context rules: only if EVERY derivation of each peptide needs such a site."""
            if case.cfg['rule'].startswith('pepsin'):
                return 'KF-CTX'
            if not lim0.has_context():
                return None
            try:
                if 'r' not in ctx_cache:
                    ctx_cache['r'] = cv.oracle_sets(case, lim=lim0.mixed_copy('robust'))['may']
                    ctx_cache['m'] = cv.oracle_sets(case, lim=lim0.mixed_copy('mixed'))['may']
            except OverflowError:
                return None
            return 'KF-CTX' if all(p not in ctx_cache['r'] and p in ctx_cache['m'] for p in extra) else None
        for i, (mv, av) in enumerate(LIMIT_SETTINGS):
            fa, _ = cvmon.execute(case, wd, paths, out=f'l{i}.fasta', max_variants_per_node=mv,
                                  additional_variants_per_misc=av, timeout_seconds=180)
            got = {s for _, s in fa}
            res['counters']['limit_runs'] = res['counters'].get('limit_runs', 0) + 1
            if not got <= base:
                res['violations'].append({'kind': 'limits-invent-peptides', 'mech': ctx_mech(got - base),
                                          'msg': f'max_variants_per_node={mv} additional={av}: {sorted(got - base)[:5]} '
                                                 f'not in the unlimited output'})
            n_less += got < base
        res['counters']['limit_runs_binding'] = n_less
        # timeout-driven retries: the first k attempts of the transcript time out
        orig = M.call_variant_peptides_wrapper
        for k, mv, av in ((1, (7, 3), (2, 1)), (2, (5, 3, 2), (2, 1, 0)), (1, (2,), (1,))):
            attempts = {'n': 0, 'params': []}

            def wrapper(*a, _k=k, **kw):
                attempts['n'] += 1
                cp = kw['cleavage_params']
                attempts['params'].append((cp.max_variants_per_node, cp.additional_variants_per_misc))
                if attempts['n'] <= _k:
                    raise TimeoutError('VERIF injected timeout')
                return orig(*a, **kw)
            M.call_variant_peptides_wrapper = wrapper
            try:
                fa, _ = cvmon.execute(case, wd, paths, out=f't{k}.fasta', max_variants_per_node=mv,
                                      additional_variants_per_misc=av, timeout_seconds=180)
                got = {s for _, s in fa}
                res['counters']['timeout_runs'] = res['counters'].get('timeout_runs', 0) + 1
                if not got <= base:
                    res['violations'].append({'kind': 'retry-invents-peptides', 'mech': ctx_mech(got - base),
                                              'msg': f'{k} injected timeouts, limits {mv}/{av}, attempts={attempts["params"]}: '
                                                     f'{sorted(got - base)[:5]} not in the unlimited output'})
                ps = attempts['params']
                if len(ps) != k + 1:
                    res['violations'].append({'kind': 'retry-count', 'msg': f'expected {k + 1} attempts, saw {ps}'})
                elif any(b[0] > a[0] or b[1] > a[1] for a, b in zip(ps, ps[1:])):
                    res['violations'].append({'kind': 'retry-relaxes-limits', 'msg': f'attempt parameters {ps}'})
            except Exception as e:
                if len(attempts['params']) > k + 1:
                    res['counters']['limit_case_wallclock_timeouts'] = 1      # a non-injected attempt hit the wall-clock limit
                    continue
                res['violations'].append({'kind': 'retry-crash', 'msg': f'{k} timeouts, limits {mv}/{av}: {type(e).__name__}: {e}'})
            finally:
                M.call_variant_peptides_wrapper = orig
        # retry exhaustion must end in an error, not in a FASTA
        def always(*a, **kw):
            raise TimeoutError('VERIF injected timeout')
        M.call_variant_peptides_wrapper = always
        outp = f'{wd}/x.fasta'
        try:
            cvmon.execute(case, wd, paths, out='x.fasta', max_variants_per_node=(2,), additional_variants_per_misc=(0,))
            res['violations'].append({'kind': 'retry-exhaustion-no-error', 'msg': 'every attempt timed out but the run succeeded'})
        except ValueError:
            res['counters']['exhaustion_runs'] = 1
            if os.path.exists(outp):
                res['violations'].append({'kind': 'retry-exhaustion-wrote-fasta', 'msg': 'FASTA exists after the failed run'})
        except Exception as e:
            res['violations'].append({'kind': 'retry-exhaustion-wrong-error', 'msg': f'{type(e).__name__}: {e}'})
        finally:
            M.call_variant_peptides_wrapper = orig
        res['feature'] = {'dense': True, 'nrec': len(case.recs()), 'coding': case.ref.genes[0].txs[0].coding,
                          'rule': case.cfg['rule'], 'misc': case.cfg['miscleavage'], 'binding': n_less}
        res['sample'] = {'kind': 'limits', 'records': len(case.recs()), 'unlimited_out': len(base), 'binding_runs': n_less}
        if res['violations']:
            res['describe'] = cv.describe(case)
        return res
    finally:
        drivers.rm(wd)


def check(rep, tier, seed, specs=None, n_override=None):
    quick = tier == 'quick'
    if specs is None:
        nf, nr, nl = (2400, 1200, 160) if quick else (40000, 120000, 6000)
        if n_override:
            nf, nr, nl = n_override, 0, max(8, n_override // 20)
        specs = cvplan.specs('C02', seed, nf, nr)
        for i in range(nl):
            specs.append({'kind': 'limits', 'seed': common.hash64('c02-lim', 'fixed' if i < nl // 2 else seed, i)})
    results, lost = common.shard_run('c02', specs, timeout_s=1500 if quick else 6 * 3600)
    rep.rule = ('(1) same generated cases as C01: OUT must be a subset of MAY = union over every non-overlapping subset of the '
                'supplied records (<= 6000 haplotypes) of the liberal digest (every documented start, Sec both ways when ambiguous, '
                'Met removed and kept, W2F/SECT forms when enabled). (2) dense clusters (8-24 records in ~30 nt): outputs under five '
                'binding limit settings and under 1-2 injected timeouts per transcript (source-free failpoint on '
                'call_variant_peptides_wrapper) must be subsets of the unlimited output; retry parameters must not increase; retry '
                'exhaustion must raise and write no FASTA. non-trivial = non-empty output; distinct = feature vector.')
    for r in results:
        if r.get('skipped'):
            rep.count('skipped')
            continue
        if r.get('error'):
            rep.add_violation('harness-exception', r['error'][-1500:], r.get('spec'))
            continue
        nontriv = bool(r.get('n_out')) if 'n_out' in r else bool(r.get('nontrivial'))
        rep.add_case(nontriv, r.get('feature'), r.get('sample'))
        rep.add_class_case((r.get('spec') or {}).get('stratum'))
        for k, v in (r.get('counters') or {}).items():
            rep.count(k, v)
        spec = r.get('spec')
        if r.get('tool_error'):
            rep.count('tool_crashes')     # a crash produces no FASTA: decided by C01, not a soundness matter
            continue
        for p in r.get('spurious_exc') or []:
            rep.add_violation('spurious', p, spec, mech='KF-CTX')
        for m, ps in (r.get('spurious_kf') or {}).items():
            for p in ps:
                rep.add_violation('spurious', p, spec, mech=m)
        if r.get('spurious'):
            rep.add_violation('spurious-peptides', f"{len(r['spurious'])} output peptides are not realizable: {r['spurious'][:6]}",
                              spec, detail=r.get('describe'))
        for v in r.get('violations') or []:
            rep.add_violation(v['kind'], v['msg'], spec, mech=v.get('mech'), detail=r.get('describe'))
    if lost:
        rep.inconclusive.append(f'{len(lost)} cases lost')
    for k in ('limit_runs', 'timeout_runs', 'exhaustion_runs'):
        if not rep.counters.get(k):
            rep.inconclusive.append(f'monitor {k} had zero evaluations')
    rep.min_nontrivial = 50 if specs and len(specs) > 200 else 1
