"""C04 - output hygiene: no canonical peptide (incl. I->L images), limits respected, no X/*,
each sequence once per FASTA, peptide table consistent with the FASTA."""
from harness import common
from harness.monitors import cvmon, cvplan

LEVEL = 'exploration'


def run_case(spec):
    if spec.get('kind') in ('novel', 'alt'):
        from harness.monitors import orfmon
        return orfmon.hygiene_case(spec)
    return cvmon.judge_case(spec, do_table=True)


def check(rep, tier, seed, specs=None, n_override=None):
    quick = tier == 'quick'
    if specs is None:
        nf, nr, no = (2400, 1200, 3000) if quick else (40000, 120000, 60000)
        if n_override:
            nf, nr, no = n_override, 0, max(10, n_override // 10)
        specs = cvplan.specs('C04', seed, nf, nr)
        try:
            from harness.monitors import orfmon   # noqa
            for i in range(no):
                specs.append({'kind': 'novel' if i % 2 else 'alt',
                              'seed': common.hash64('c04-orf', 'fixed' if i < no // 2 else seed, i)})
        except ImportError:
            pass
    results, lost = common.shard_run('c04', specs, timeout_s=1500 if quick else 6 * 3600)
    rep.rule = ('callVariant on the generated cases of C01-C03, callNovelORF and callAltTranslation on generated references: output vs. '
                'O-CANON (own digest of the proteome under the same rule/exception/limits, Met-removed forms, I->L images); every peptide '
                'within [min,max] length, >= min mass, no X/*; each sequence once per FASTA; (sequence, entry) pairs of the callVariant peptide '
                'table == those of the FASTA and subsequence == sequence[start:end] for every row. non-trivial = non-empty output; '
                'distinct = feature vector.')
    for r in results:
        if r.get('skipped'):
            rep.count('skipped')
            continue
        if r.get('error'):
            rep.add_violation('harness-exception', r['error'][-1500:], r.get('spec'))
            continue
        for k, v in (r.get('counters') or {}).items():
            rep.count(k, v)
        spec = r.get('spec')
        if r.get('tool_error'):
            rep.count('tool_crashes')
            rep.add_case(False, None, None)
            continue
        rep.add_case(bool(r.get('n_out')), r.get('feature'), r.get('sample'))
        if isinstance(spec, dict) and spec.get('stratum'):
            rep.add_class_case(spec['stratum'])
        d = r.get('describe')
        if r.get('in_canon'):
            rep.add_violation('canonical-peptide-in-output', f"{r['in_canon'][:6]}", spec, mech=r.get('canon_mech'), detail=d)
        if r.get('bad_limits'):
            rep.add_violation('limit-violated', f"{r['bad_limits'][:6]}", spec, detail=d)
        if r.get('dup_seq'):
            rep.add_violation('duplicate-sequence', f"{r['dup_seq']} sequences occur more than once in the FASTA", spec, detail=d)
        for b in (r.get('table') or {}).get('bad', []):
            rep.add_violation('table-' + b['kind'], str(b)[:500], spec, detail=d)
        for v in r.get('violations') or []:
            rep.add_violation(v['kind'], v['msg'], spec, detail=d)
    if lost:
        rep.inconclusive.append(f'{len(lost)} cases lost')
    if not rep.counters.get('table_rows'):
        rep.inconclusive.append('peptide-table monitor had zero evaluations')
    rep.min_nontrivial = 50 if specs and len(specs) > 200 else 1
