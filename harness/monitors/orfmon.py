"""Worker-side engine for callNovelORF (C08), callAltTranslation (C09) and their hygiene checks (C04)."""
from __future__ import annotations
import argparse
import random
import re
from pathlib import Path

from harness import drivers, cvengine as cv
from harness.gen import refgen
from harness.model import digest as dg, oracle as orc, rules
from harness.model.seqmodel import translate

BIOTYPES = ['lncRNA', 'lncRNA', 'processed_pseudogene', 'retained_intron', 'miRNA', 'snoRNA', 'TEC', 'protein_coding']
DEFAULT_EXCLUSION = {'protein_coding', 'Mt_rRNA', 'Mt_tRNA', 'miRNA', 'misc_RNA', 'rRNA', 'scRNA', 'snRNA', 'snoRNA', 'ribozyme',
                     'sRNA', 'scaRNA', 'Mt_tRNA_pseudogene', 'tRNA_pseudogene', 'snoRNA_pseudogene', 'snRNA_pseudogene',
                     'scRNA_pseudogene', 'rRNA_pseudogene', 'misc_RNA_pseudogene', 'miRNA_pseudogene', 'artifact',
                     'vaultRNA/vault_RNA'}


def gen_ref(rng, sec_p=0.2, w_rich=False):
    ref = refgen.make_reference(rng, n_genes=rng.randint(1, 4), coding_p=0.5, sec_p=sec_p, nf_p=0.2, isoforms=(1, 2),
                                min_exons=1, max_exons=4, exon_len=(20, 110), short_exon_p=0.1)
    # the tool filters on the GENE biotype written on the transcript line (gene_type / gene_biotype)
    for g in ref.genes:
        if not any(t.coding for t in g.txs):
            g.biotype = rng.choice(BIOTYPES)
        for t in g.txs:
            t.biotype = g.biotype
    return ref


def gen_cfg(rng):
    cfg = cv.gen_config(rng, 'orf')
    if cfg['rule'].startswith('pepsin'):
        cfg['rule'] = 'trypsin'
    return cfg


def cleavage_ns(a, cfg):
    return drivers.cleavage_namespace(a, cfg['rule'], cfg['exception'], cfg['miscleavage'], cfg['min_mw'], cfg['min_length'],
                                      cfg['max_length'])


# ------------------------------------------------------------------------------------------ C08
def novel_case(spec, hygiene_only=False):
    from moPepGen.cli.call_novel_orf import call_novel_orf_peptide
    rng = random.Random(spec['seed'])
    ref = gen_ref(rng)
    cfg = gen_cfg(rng)
    if hygiene_only:
        # hygiene runs aim at the limits: W>F forms (39 Da lighter per W) around a minimum mass inside the range of peptide masses
        cfg['w2f'] = rng.random() < 0.8
        cfg['min_mw'] = rng.choice([800., 1000., 1200., 1500., 1900., 2300.])
        cfg['max_length'] = rng.choice([12, 15, 25])
    wd = drivers.case_dir('c08-')
    try:
        refgen.write_reference(ref, wd)
        a = drivers.ref_namespace(wd)
        cleavage_ns(a, cfg)
        a.command = 'callNovelORF'
        a.output_path = Path(wd) / 'novel.fasta'
        a.output_orf = Path(wd) / 'orf.fasta'
        a.min_tx_length = rng.choice([21, 21, 60, 150])
        a.orf_assignment = rng.choice(['max', 'min'])
        a.coding_novel_orf = rng.random() < 0.4
        a.w2f_reassignment = cfg['w2f']
        incl = excl = None
        r = rng.random()
        if r < 0.25:
            incl = rng.sample(sorted(set(BIOTYPES)), rng.randint(1, 3))
            a.inclusion_biotypes = Path(wd) / 'incl.txt'
            a.inclusion_biotypes.write_text('\n'.join(incl) + '\n')
        else:
            a.inclusion_biotypes = None
        if 0.2 < r < 0.5:
            excl = rng.sample(sorted(set(BIOTYPES)), rng.randint(1, 3))
            a.exclusion_biotypes = Path(wd) / 'excl.txt'
            a.exclusion_biotypes.write_text('\n'.join(excl) + '\n')
        else:
            a.exclusion_biotypes = None
        with drivers.quiet():
            call_novel_orf_peptide(a)
        fa = drivers.read_fasta(a.output_path)
        orfs = drivers.read_fasta(a.output_orf)
        lim = cv.limits_of(cfg)
        canon = dg.canonical_pool(ref.proteins(), lim)
        viol = []
        out = [s for _, s in fa]
        outset = set(out)
        res = {'counters': {'novel_cases': 1, 'novel_peptides': len(outset)}}
        # hygiene (C04)
        if outset & canon:
            viol.append({'kind': 'canonical-peptide-in-output', 'msg': f'callNovelORF: {sorted(outset & canon)[:5]}'})
        bad = [p for p in outset if not dg.ok_peptide(p, lim) and abs(dg.mass(p) - lim.min_mw) > 1e-6]
        if bad:
            viol.append({'kind': 'limit-violated', 'msg': f'callNovelORF: {bad[:5]} limits {lim.as_dict()}'})
        if len(out) != len(outset):
            viol.append({'kind': 'duplicate-sequence', 'msg': 'callNovelORF FASTA repeats a sequence'})
        if hygiene_only:
            res.update(violations=viol, n_out=len(outset), feature=('novel', cfg['rule'], str(cfg['exception']), a.coding_novel_orf, cfg['w2f']),
                       sample={'command': 'callNovelORF', 'peptides': len(outset)})
            return res
        # selection + definitional ORF digest
        excl_eff = set(excl) if excl is not None else DEFAULT_EXCLUSION
        selected = []
        for tx in ref.all_txs():
            if tx.coding:
                if a.coding_novel_orf:
                    selected.append(tx)
                continue
            if incl and tx.gene.biotype not in incl:
                continue
            if excl_eff and tx.gene.biotype in excl_eff:
                continue
            if tx.tx_len() < a.min_tx_length:
                continue
            selected.append(tx)
        flags = orc.Flags(w2f=cfg['w2f'])
        must, may = set(), set()
        exp_orfs = {}
        for tx in selected:
            s = ref.tx_seq(tx)
            bb = orc.Backbone(tx.id, s, 'main', tx)
            bb.coding = False
            may |= orc.backbone_peptides(bb, (), lim, flags, must=False)
            # W>F forms are demanded only for peptides that are themselves novel-ORF output (a W>F form of a
            # canonical peptide is left open: MAY allows it, MUST does not demand it)
            base = orc.backbone_peptides(bb, (), lim, orc.Flags(), must=True, mass_margin=1e-3) - canon
            must |= base
            if cfg['w2f']:
                for p0 in base:
                    for q in orc.w2f_forms(p0):
                        if dg.ok_peptide(q, lim, 1e-3):
                            must.add(q)
            for m in re.finditer('(?=ATG)', s):
                st = m.start()
                aa = translate(s[st:])
                k = aa.find('*')
                if k == -1:
                    k = len(aa)
                exp_orfs[(tx.id, st, st + 3 * k)] = aa[:k]
        must -= canon
        missing = sorted(must - outset)
        spurious = sorted(outset - may)
        mech = None
        if (missing or spurious) and lim.has_context():
            m2, y2 = set(), set()
            for tx in selected:
                bb = orc.Backbone(tx.id, ref.tx_seq(tx), 'main', tx)
                bb.coding = False
                m2 |= orc.backbone_peptides(bb, (), lim.mixed_copy('robust'), flags, must=True, mass_margin=1e-3)
                y2 |= orc.backbone_peptides(bb, (), lim.mixed_copy('mixed'), flags, must=False)
            mc, sc = [p for p in missing if p not in m2], [p for p in spurious if p in y2]
            if mc:
                viol.append({'kind': 'novel-orf-peptides-missing', 'mech': 'KF-CTX', 'msg': f'{mc[:4]}'})
            if sc:
                viol.append({'kind': 'novel-orf-peptides-unexpected', 'mech': 'KF-CTX', 'msg': f'{sc[:4]}'})
            missing = [p for p in missing if p in m2]
            spurious = [p for p in spurious if p not in y2]
        if missing:
            viol.append({'kind': 'novel-orf-peptides-missing', 'mech': mech, 'msg': f'{missing[:6]} options min_tx_length={a.min_tx_length} '
                                                                                  f'coding_novel_orf={a.coding_novel_orf} incl={incl} excl={excl} limits={lim.as_dict()} w2f={cfg["w2f"]}'})
        if spurious:
            viol.append({'kind': 'novel-orf-peptides-unexpected', 'mech': mech, 'msg': f'{spurious[:6]} (not a digestion product of any ATG-ORF of a selected transcript) '
                                                                                     f'selected={[t.id for t in selected]} coding_novel_orf={a.coding_novel_orf} incl={incl} excl={excl}'})
        # headers name selected transcripts only
        sel_ids = {t.id for t in selected}
        for h, s in fa:
            for ent in h.split(' '):
                if ent.split('|')[0] not in sel_ids:
                    viol.append({'kind': 'novel-orf-unselected-transcript', 'msg': f'{ent} ({s}); selected {sorted(sel_ids)}; coding_novel_orf={a.coding_novel_orf}'})
                    break
        # ORF FASTA
        seen = set()
        attributed = set()
        for h, s in fa:
            for ent in h.split(' '):
                f = ent.split('|')
                orf = [x for x in f if re.fullmatch(r'ORF\d+', x)]
                if orf:
                    attributed.add((f[0], orf[0]))
        listed = set()
        for h, s in orfs:
            f = h.split('|')
            if len(f) != 4 or not re.fullmatch(r'\d+-\d+', f[3]):
                viol.append({'kind': 'orf-fasta-header', 'msg': h})
                continue
            if h in seen:
                viol.append({'kind': 'orf-fasta-duplicate-id', 'msg': h})
            seen.add(h)
            st, en = (int(x) for x in f[3].split('-'))
            listed.add((f[0], f[2]))
            exp = exp_orfs.get((f[0], st, en))
            if exp is None or exp != s:
                viol.append({'kind': 'orf-fasta-coordinates', 'msg': f'{h}: sequence {s[:30]} vs translation of tx[{st}:{en}] {str(exp)[:30]}'})
        if not attributed <= listed:
            viol.append({'kind': 'orf-fasta-missing-orf', 'msg': f'peptides attributed to {sorted(attributed - listed)[:4]} but ORF FASTA lacks them'})
        res['counters'].update(novel_selected_tx=len(selected), orf_records=len(orfs))
        res.update(violations=viol, nontrivial=bool(must),
                   feature=('novel', cfg['rule'], str(cfg['exception']), cfg['miscleavage'], a.coding_novel_orf, cfg['w2f'], a.orf_assignment,
                            incl is not None, excl is not None, a.min_tx_length, len(selected) > 0),
                   sample={'command': 'callNovelORF', 'selected': [t.id for t in selected], 'peptides': len(outset), 'expected_must': len(must),
                           'orfs': len(orfs), 'options': {'min_tx_length': a.min_tx_length, 'coding_novel_orf': a.coding_novel_orf,
                                                          'inclusion': incl, 'exclusion': excl, 'orf_assignment': a.orf_assignment}})
        return res
    finally:
        drivers.rm(wd)


# ------------------------------------------------------------------------------------------ C09
def alt_case(spec, hygiene_only=False):
    from moPepGen.cli.call_alt_translation import call_alt_translation
    rng = random.Random(spec['seed'])
    ref = gen_ref(rng, sec_p=0.6)
    cfg = gen_cfg(rng)
    sect = rng.random() < 0.7
    w2f = rng.random() < 0.6 or not sect
    if hygiene_only:
        w2f = True
        cfg['min_mw'] = rng.choice([800., 1000., 1200., 1500., 1900., 2300.])
        cfg['max_length'] = rng.choice([12, 15, 25])
    wd = drivers.case_dir('c09-')
    try:
        refgen.write_reference(ref, wd)
        a = drivers.ref_namespace(wd)
        cleavage_ns(a, cfg)
        a.command = 'callAltTranslation'
        a.output_path = Path(wd) / 'alt.fasta'
        a.selenocysteine_termination = sect
        a.w2f_reassignment = w2f
        with drivers.quiet():
            call_alt_translation(a)
        fa = drivers.read_fasta(a.output_path)
        lim = cv.limits_of(cfg)
        canon = dg.canonical_pool(ref.proteins(), lim)
        out = [s for _, s in fa]
        outset = set(out)
        viol = []
        res = {'counters': {'alt_cases': 1, 'alt_peptides': len(outset)}}
        if outset & canon:
            viol.append({'kind': 'canonical-peptide-in-output', 'msg': f'callAltTranslation: {sorted(outset & canon)[:5]}'})
        bad = [p for p in outset if not dg.ok_peptide(p, lim) and abs(dg.mass(p) - lim.min_mw) > 1e-6]
        if bad:
            viol.append({'kind': 'limit-violated', 'msg': f'callAltTranslation: {bad[:5]}'})
        if len(out) != len(outset):
            viol.append({'kind': 'duplicate-sequence', 'msg': 'callAltTranslation FASTA repeats a sequence'})
        if hygiene_only:
            res.update(violations=viol, n_out=len(outset), feature=('alt', cfg['rule'], str(cfg['exception']), sect, w2f),
                       sample={'command': 'callAltTranslation', 'peptides': len(outset)})
            return res
        flags_on = orc.Flags(sect=sect, w2f=w2f)
        flags_on.strict_end_nf = True     # the open 3' end of an mRNA_end_NF transcript is not a peptide C-terminus
        flags_off = orc.Flags()
        must, may = set(), set()
        per_tx = {}
        for tx in ref.all_txs():
            if not tx.coding:
                continue
            bb = cv.main_backbone(ref, tx, [])
            on_may = orc.backbone_peptides(bb, (), lim, flags_on, must=False)
            on_must = orc.backbone_peptides(bb, (), lim, flags_on, must=True, mass_margin=1e-3)
            plain_may = orc.backbone_peptides(bb, (), lim, flags_off, must=False)
            may |= on_may
            must |= (on_must - plain_may)
            per_tx[tx.id] = (bb, on_may)
        must -= canon
        missing = sorted(must - outset)
        spurious = sorted(outset - may)
        mech = None
        if (missing or spurious) and lim.has_context():
            m2, y2 = set(), set()
            for tx in ref.all_txs():
                if tx.coding:
                    bb = cv.main_backbone(ref, tx, [])
                    m2 |= orc.backbone_peptides(bb, (), lim.mixed_copy('robust'), flags_on, must=True, mass_margin=1e-3)
                    y2 |= orc.backbone_peptides(bb, (), lim.mixed_copy('mixed'), flags_on, must=False)
            mc, sc = [p for p in missing if p not in m2], [p for p in spurious if p in y2]
            if mc:
                viol.append({'kind': 'alt-translation-peptides-missing', 'mech': 'KF-CTX', 'msg': f'{mc[:4]}'})
            if sc:
                viol.append({'kind': 'alt-translation-peptides-unexpected', 'mech': 'KF-CTX', 'msg': f'{sc[:4]}'})
            missing = [p for p in missing if p in m2]
            spurious = [p for p in spurious if p not in y2]
        if missing and mech is None:
            endnf = {t.id for t in ref.all_txs() if t.coding and t.mrna_end_nf}
            # SECT-truncated peptides of mRNA_end_NF transcripts (known finding)
            rest = []
            for p in missing:
                owners = [t for t, (bb, pm) in per_tx.items() if p in pm]
                if owners and all(t in endnf for t in owners) and sect:
                    continue
                rest.append(p)
            if not rest:
                mech = 'KF-SECT-ENDNF'
        if missing:
            viol.append({'kind': 'alt-translation-peptides-missing', 'mech': mech,
                         'msg': f'{missing[:6]} sect={sect} w2f={w2f} limits={lim.as_dict()}'})
        if spurious:
            viol.append({'kind': 'alt-translation-peptides-unexpected', 'mech': mech if mech == 'KF-CTX' else None,
                         'msg': f'{spurious[:6]} sect={sect} w2f={w2f}'})
        # every output peptide must arise ONLY through the alternative events (not a plain digestion product)
        plain_all = set()
        for tx in ref.all_txs():
            if tx.coding:
                plain_all |= orc.backbone_peptides(cv.main_backbone(ref, tx, []), (), lim, flags_off, must=True)
        # headers: the named SECT / W2F events suffice to produce the peptide
        n_ent = 0
        for h, s in fa:
            for ent in h.split(' '):
                n_ent += 1
                f = ent.split('|')
                ids = [x for x in f[1:] if x.startswith('SECT-') or x.startswith('W2F-')]
                if f[0] not in per_tx:
                    viol.append({'kind': 'alt-header-unknown-transcript', 'msg': ent})
                    continue
                if not ids:
                    viol.append({'kind': 'alt-header-without-event', 'msg': f'{ent} ({s})'})
                    continue
                if any(x.startswith('SECT-') for x in ids) and not sect or any(x.startswith('W2F-') for x in ids) and not w2f:
                    viol.append({'kind': 'alt-header-event-without-flag', 'msg': ent})
                    continue
                bb = per_tx[f[0]][0]
                fl = orc.Flags(sect=any(x.startswith('SECT-') for x in ids), w2f=any(x.startswith('W2F-') for x in ids))
                l2 = lim.mixed_copy('mixed') if lim.has_context() else lim
                if s not in orc.backbone_peptides(bb, (), l2, fl, must=False):
                    viol.append({'kind': 'alt-header-events-do-not-suffice', 'msg': f'{ent} ({s})'})
                    continue
                # SECT id must point at an annotated Sec codon (1-based gene position), W2F at a W of the unmodified peptide
                tx = bb.tx
                for x in ids:
                    if x.startswith('SECT-'):
                        g = int(x.split('-')[1]) - 1
                        if g not in [tx.tx2gene(c) for c in tx.sec]:
                            viol.append({'kind': 'alt-header-sect-position', 'msg': f'{ent}: no annotated Sec codon at gene position {g}'})
                    else:
                        k = int(x.split('-')[1]) - 1
                        if not (0 <= k < len(s)) or s[k] != 'F':
                            viol.append({'kind': 'alt-header-w2f-position', 'msg': f'{ent} ({s}): residue {k + 1} is not F'})
        res['counters']['alt_header_entries'] = n_ent
        res.update(violations=viol[:10], nontrivial=bool(must),
                   feature=('alt', cfg['rule'], str(cfg['exception']), cfg['miscleavage'], sect, w2f,
                            max((len(t.sec) for t in ref.all_txs()), default=0),
                            any(t.cds_start_nf for t in ref.all_txs()), any(t.mrna_end_nf for t in ref.all_txs())),
                   sample={'command': 'callAltTranslation', 'sect': sect, 'w2f': w2f, 'peptides': len(outset), 'expected_must': len(must),
                           'first': fa[0] if fa else None})
        return res
    finally:
        drivers.rm(wd)


def reject_case(spec):
    """callAltTranslation without any flag must be rejected with an error."""
    from moPepGen.cli.call_alt_translation import call_alt_translation
    rng = random.Random(spec['seed'])
    ref = gen_ref(rng)
    wd = drivers.case_dir('c09r-')
    try:
        refgen.write_reference(ref, wd)
        a = drivers.ref_namespace(wd)
        cleavage_ns(a, gen_cfg(rng))
        a.command = 'callAltTranslation'
        a.output_path = Path(wd) / 'alt.fasta'
        a.selenocysteine_termination = False
        a.w2f_reassignment = False
        try:
            with drivers.quiet():
                call_alt_translation(a)
            return {'violations': [{'kind': 'no-flag-not-rejected', 'msg': 'callAltTranslation ran without any flag'}],
                    'nontrivial': True, 'feature': ('reject',), 'counters': {'reject_cases': 1}}
        except ValueError:
            return {'violations': [], 'nontrivial': True, 'feature': ('reject',), 'counters': {'reject_cases': 1}}
    finally:
        drivers.rm(wd)


def hygiene_case(spec):
    return novel_case(spec, hygiene_only=True) if spec['kind'] == 'novel' else alt_case(spec, hygiene_only=True)
