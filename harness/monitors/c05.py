"""C05 - options and inputs act monotonically on callVariant's peptide set (paired executions)."""
from __future__ import annotations
import copy
import random

from harness import common, drivers, cvengine as cv
from harness.model import digest as dg, rules
from harness.monitors import cvmon

LEVEL = 'exploration'

CTXFREE = ['lysc', 'arg-c', 'cnbr', 'glutamyl endopeptidase', 'asp-n', 'lysn']


def out_of(case, wd, paths, name, **over):
    try:
        fa, _ = cvmon.execute(case, wd, paths, out=name + '.fasta', **over)
    except Exception as e:
        import traceback
        raise ToolCrash({'type': type(e).__name__, 'msg': str(e)[:300], 'tb': traceback.format_exc()[-1800:],
                         'has_nested': case.stratum == 'as_nested'})
    return {s: h for h, s in fa}


def violates_limit(p, cfgA):
    """Is peptide p outside the stricter configuration's limits (sequence-level, no labels)?"""
    limA = cv.limits_of(cfgA)
    if len(p) < limA.min_length or len(p) > limA.max_length:
        return True
    if dg.mass(p) < limA.min_mw + 1e-6:
        return True
    # number of internal sites: upper bound = loose sites (the tool may cut at any of them)
    n_loose = len(set(rules.loose_sites_no_context(p, limA.rule)) | set(rules.cleave_sites(p, limA.rule, None)))
    return n_loose > limA.miscleavage


class ToolCrash(Exception):
    def __init__(self, te):
        super().__init__(te['msg'])
        self.te = te


def run_case(spec):
    """A crash of callVariant on a valid input is reported as such (and attributed to the recorded crash mechanisms of
    C01 where it matches one); the pair it belongs to cannot be judged."""
    try:
        return _run_case(spec)
    except ToolCrash as e:
        from harness.monitors import c01
        te = e.te
        if c01.crash_mech(te, {}) == 'TIMEOUT':
            return {'nontrivial': False, 'counters': {'cases': 1, 'tool_timeouts': 1}, 'violations': []}
        return {'nontrivial': False, 'counters': {'cases': 1, 'tool_crashes': 1},
                'violations': [{'kind': 'tool-crash', 'mech': c01.crash_mech(te, {'has_nested': te.get('has_nested')}),
                                'msg': f"callVariant raised {te['type']}: {te['msg']}\n{te['tb'][-700:]}"}]}


def files_threads_case(spec):
    """INPUT clause under --threads: a second GVF file that holds only intronic records of OTHER transcripts (among them the last
    one in annotation order, whose turn comes while a partial batch may be pending) can only add peptides - CLI runs with
    --threads 2/3/4 (ppft worker processes) on [A] and on [A, B]."""
    from harness.monitors import c06
    from harness.gen import gvfgen
    rng = random.Random(spec['seed'])
    n_tx = rng.randint(3, 7)
    skip = {n_tx - 1} | set(rng.sample(range(n_tx - 1), rng.randint(0, 1)))
    case = c06.make_case(rng, n_tx, skip)
    wd = drivers.case_dir('c05t-')
    viol = []
    counters = {'cases': 1, 'pairs': 0}
    try:
        cv.write_case(case, wd)
        skipped_tx = {case.ref.genes[i].txs[0].id for i in skip}
        recs = case.recs()
        a_recs = [r for r in recs if r.tx.id not in skipped_tx]
        b_recs = [r for r in recs if r.tx.id in skipped_tx]
        if not a_recs or not b_recs:
            return {'skipped': True}
        gvfgen.write_gvf(f'{wd}/A.gvf', a_recs, 'gSNP', 'small')
        gvfgen.write_gvf(f'{wd}/B.gvf', b_recs, 'gINDEL', 'small')
        t = rng.choice([2, 2, 3, 4])
        outs = []
        for name, files in (('A', ['A.gvf']), ('AB', ['A.gvf', 'B.gvf'])):
            out = f'{wd}/{name}.fasta'
            rc, so, se = common.run_cli(c06.cli_args(wd, [f'{wd}/{x}' for x in files], out, threads=t), timeout=600)
            if rc is None:
                return {'skipped': True, 'counters': {'watchdog': 1}}
            got = c06.seqs_of(out)
            if rc != 0 or got is None:
                if 'Failed to finish transcript' in se:
                    return {'nontrivial': False, 'counters': {'cases': 1, 'tool_timeouts': 1}, 'violations': []}
                viol.append({'kind': 'tool-crash', 'msg': f'--threads {t} -i {files}: exit {rc}: {se[-300:]}'})
                return {'nontrivial': False, 'counters': counters, 'violations': viol}
            outs.append(got)
        counters['pairs'] = 1
        counters['threaded_file_pairs'] = 1
        A, B = outs
        counters['added_peptides'] = len(B - A)
        if not A <= B:
            viol.append({'kind': 'not-monotone',
                         'msg': f'--threads {t}: adding a file with only intronic records of transcripts {sorted(skipped_tx)} (n_tx={n_tx}) '
                                f'removed {len(A - B)} peptides of other transcripts: {sorted(A - B)[:5]}'})
        return {'nontrivial': bool(A), 'feature': ('files-threads', t, n_tx, len(skip)), 'violations': viol, 'counters': counters,
                'sample': {'kind': 'files-threads', 'threads': t, 'n_tx': n_tx, 'peptides_A': len(A), 'peptides_AB': len(B)}}
    finally:
        drivers.rm(wd)


def _run_case(spec):
    rng = random.Random(spec['seed'])
    kind = spec['kind']
    if kind == 'files-threads':
        return files_threads_case(spec)
    dense = kind in ('records-dense', 'limits-dense')
    sub = {'seed': common.hash64(spec['seed'], 'case'), 'stratum': 'dense' if dense else spec.get('stratum'),
           'min_var': 6, 'max_var': 12}
    case = cv.build_case(sub)
    if case is None:
        return {'skipped': True}
    if dense or kind.startswith('records') or kind == 'files':
        # context-free rule: the known context finding cannot blur the strict subset relation
        case.cfg.update(rule=rng.choice(CTXFREE + ['trypsin']), exception=None)
    has_nested = any(isinstance(r, (cv.ASIns, cv.ASSub)) for r in case.recs()) and case.stratum == 'as_nested'
    noisy = has_nested or case.cfg['rule'].startswith('pepsin')
    wd = drivers.case_dir('c05-')
    viol = []
    counters = {'cases': 1, 'pairs': 0, 'added_peptides': 0, 'strict_pairs': 0}
    kf = None
    try:
        paths = cv.write_case(case, wd)

        def compare(tag, A, B, attributable=None, mech=None):
            counters['pairs'] += 1
            lost = sorted(set(A) - set(B))
            added = sorted(set(B) - set(A))
            counters['added_peptides'] += len(added)
            if added:
                counters['strict_pairs'] += 1
            m = mech or ('KF-NESTED' if has_nested else ('KF-CTX' if case.cfg['rule'].startswith('pepsin') else None))
            if lost:
                viol.append({'kind': 'not-monotone', 'mech': m,
                             'msg': f'{tag}: {len(lost)} peptides of the stricter/smaller run are absent from the more permissive one: {lost[:5]}'})
            if attributable is not None and not noisy:
                bad = [p for p in added if not attributable(p, B.get(p, ''))]
                if bad:
                    viol.append({'kind': 'unattributable-addition', 'mech': m,
                                 'msg': f'{tag}: added peptides not attributable to the relaxation: '
                                        f'{[(p, B[p][:80]) for p in bad[:4]]}'})

        if kind in ('limits', 'limits-dense'):
            chain = rng.choice(['miscleavage', 'min_length', 'max_length', 'min_mw'])
            if case.note.get('boundary_len') and rng.random() < 0.7:
                chain = 'max_length' if case.cfg['max_length'] == case.note['boundary_len'] else 'min_length'
            vals = {'miscleavage': [0, 1, 2, 3], 'min_length': [9, 7, 5], 'max_length': [15, 25, 40],
                    'min_mw': [800., 500., 0.]}[chain]
            if chain != 'miscleavage' and (rng.random() < 0.6 or case.note.get('boundary_len')):
                # boundary chain: the limit values are taken from a peptide of the most permissive output, so that peptides lie
                # EXACTLY on the limit (length == max / min length, mass just above / below the minimum mass)
                loose = out_of(case, wd, paths, f'{chain}probe', cfg={chain: vals[-1]})
                cand = sorted(loose)
                if chain != 'min_mw' and rng.random() < 0.35:
                    # ... or from a CANONICAL peptide of the reference (own digestion, Met-removed forms included): a canonical
                    # peptide exactly on the limit has to be in the pool of the stricter run as well
                    lim0 = cv.limits_of(dict(case.cfg, min_length=5, max_length=45, min_mw=0.))
                    cand = sorted(dg.canonical_pool(case.ref.proteins(), lim0)) or cand
                    counters['boundary_from_canonical'] = 1
                if case.note.get('boundary_len') and chain in ('max_length', 'min_length') and rng.random() < 0.8:
                    cand = ['A' * case.note['boundary_len']]       # the length the generator aimed the limits at
                if cand:
                    p0 = rng.choice(cand)
                    if chain == 'max_length' and 8 <= len(p0) <= 39:
                        vals = [len(p0) - 1, len(p0), 40]
                    elif chain == 'min_length' and 6 <= len(p0) <= 12:
                        vals = [len(p0) + 1, len(p0), 5]
                    elif chain == 'min_mw':
                        m0 = dg.mass(p0)
                        if m0 > 300:
                            vals = [round(m0 + 0.5, 3), round(m0 - 0.5, 3), 0.]
                    counters['boundary_chains'] = 1
            outs = []
            for v in vals:
                outs.append((v, out_of(case, wd, paths, f'{chain}{v}', cfg={chain: v})))
            for (va, A), (vb, B) in zip(outs, outs[1:]):
                cfgA = dict(case.cfg)
                cfgA[chain] = va
                compare(f'{chain} {va}->{vb}', A, B, lambda p, h, cfgA=cfgA: violates_limit(p, cfgA))
            feat = (kind, chain, case.stratum, case.cfg['rule'])
        elif kind == 'flags':
            flag = rng.choice(['sect', 'w2f', 'coding_novel_orf'])
            A = out_of(case, wd, paths, 'off', cfg={flag: False})
            B = out_of(case, wd, paths, 'on', cfg={flag: True})
            if flag == 'sect':
                attr = lambda p, h: all('SECT-' in e for e in h.split(' '))
            elif flag == 'w2f':
                attr = lambda p, h: all('W2F-' in e for e in h.split(' '))
            else:
                attr = lambda p, h: all('|ORF' in e for e in h.split(' '))
            mech = None
            lost = set(A) - set(B)
            if lost and flag in ('sect', 'w2f'):
                # known finding: with the flag on, the per-transcript denylist also holds the alt-translation forms of the
                # UNMODIFIED transcript; a variant peptide that equals such a form is then withheld
                from harness.model import oracle as orc
                lim = cv.limits_of(case.cfg)
                if lim.has_context():
                    lim = lim.mixed_copy('mixed')
                alt_ref = set()
                for tx in {r.tx for r in case.recs()} | {r.acc_tx for r in case.recs() if isinstance(r, cv.Fusion)}:
                    bb = cv.main_backbone(case.ref, tx, [])
                    fl_on = orc.Flags(sect=case.cfg['sect'] or flag == 'sect', w2f=case.cfg['w2f'] or flag == 'w2f',
                                      coding_novel_orf=True)
                    alt_ref |= orc.backbone_peptides(bb, (), lim, fl_on, must=False)
                if lost <= alt_ref:
                    mech = 'KF-ALT-REF-DENYLIST'
            compare(f'{flag} off->on', A, B, attr, mech=mech)
            feat = (kind, flag, case.stratum, case.cfg['rule'], bool(set(B) - set(A)))
        elif kind in ('records', 'records-dense'):
            recs = [(fi, ri) for fi, (_, _, rs) in enumerate(case.files) for ri, r in enumerate(rs)
                    if isinstance(r, cv.Small)]
            if len(recs) < 2:
                return {'skipped': True}
            fi, ri = rng.choice(recs)
            small = copy.copy(case)
            small.files = [(n, s, [r for j, r in enumerate(rs) if not (i == fi and j == ri)]) for i, (n, s, rs) in enumerate(case.files)]
            small.files = [f for f in small.files if f[2]]
            removed = case.files[fi][2][ri]
            wd2 = drivers.case_dir('c05b-')
            try:
                p2 = cv.write_case(small, wd2)
                A = out_of(small, wd2, p2, 'less')
            finally:
                drivers.rm(wd2)
            B = out_of(case, wd, paths, 'more')
            # a start-codon-anchored indel is shifted in place and can collide with its neighbours (known finding)
            anchored = any(isinstance(r, cv.Small) and cv._is_start_anchor(r.tx, r) for r in case.recs())
            attr = None
            if not dense:
                try:
                    oa, ob = cv.oracle_sets(small), cv.oracle_sets(case)
                    # an added peptide must not have been demanded without the record
                    attr = lambda p, h: p not in oa['must']
                except OverflowError:
                    attr = None
            compare(f'add record {removed.id}', A, B, attr, mech='KF-START-ANCHOR' if anchored else None)
            feat = (kind, removed.kind, case.stratum, case.cfg['rule'], len(case.recs()) > 10)
        elif kind == 'files':
            if len(case.files) < 2:
                return {'skipped': True}
            k = rng.randrange(len(case.files))
            A = out_of(case, wd, [p for i, p in enumerate(paths) if i != k], 'less')
            B = out_of(case, wd, paths, 'more')
            anchored = any(isinstance(r, cv.Small) and cv._is_start_anchor(r.tx, r) for r in case.recs())
            compare(f'add file {case.files[k][0]}', A, B, None, mech='KF-START-ANCHOR' if anchored else None)
            feat = (kind, case.files[k][1], case.stratum, case.cfg['rule'])
        elif kind == 'switch':
            sw = rng.choice(['noncanonical_transcripts', 'backsplicing_only'])
            B = out_of(case, wd, paths, 'all')
            A = out_of(case, wd, paths, 'restricted', **{sw: True})
            compare(f'{sw}', A, B, None)
            feat = (kind, sw, case.stratum, case.cfg['rule'], len(A) < len(B))
        else:
            raise ValueError(kind)
        res = {'nontrivial': counters['added_peptides'] > 0 or counters['pairs'] > 0, 'feature': feat, 'violations': viol,
               'counters': counters,
               'sample': {'kind': kind, 'stratum': case.stratum, 'feature': feat, 'pairs': counters['pairs'],
                          'added_peptides': counters['added_peptides']}}
        if viol:
            res['describe'] = cv.describe(case)
        return res
    finally:
        drivers.rm(wd)


def check(rep, tier, seed, specs=None, n_override=None):
    quick = tier == 'quick'
    if specs is None:
        n = n_override or (1600 if quick else 40000)
        kinds = ['limits', 'limits', 'flags', 'flags', 'records', 'records-dense', 'files', 'switch', 'limits-dense']
        strata = ['small', 'multi', 'as', 'fusion_var', 'circ_var', 'sec', 'small', 'circ', 'fusion', 'units', 'paralog', 'fs_pair']
        specs = []
        for i in range(n):
            kind = kinds[i % len(kinds)]
            st = strata[(i // len(kinds)) % len(strata)]
            if kind == 'files':
                st = ['as', 'fusion_var', 'circ_var', 'units', 'units'][i % 5]
            if kind == 'switch':
                st = ['as', 'fusion_var', 'circ_var', 'circ', 'units'][i % 5]
            specs.append({'kind': kind, 'stratum': st, 'seed': common.hash64('c05', 'fixed' if i < n // 2 else seed, i)})
        nt = max(4, n // 60)
        specs += [{'kind': 'files-threads', 'stratum': 'sched', 'seed': common.hash64('c05t', 'fixed' if i < nt // 2 else seed, i)}
                  for i in range(nt)]
    results, lost = common.shard_run('c05', specs, timeout_s=1800 if quick else 6 * 3600)
    rep.rule = ('paired callVariant executions on one generated input: chains miscleavage 0-1-2-3, min-length 9-7-5, max-length 15-25-40, '
                'min-mw 800-500-0, or boundary chains whose values are the length / mass of a peptide of the most permissive output (added peptides must '
                'violate the stricter limit by a sequence-level predicate); SECT / W2F / coding-novel-ORF '
                'off->on (every entry of an added peptide must carry the SECT- / W2F- / ORF identifier); record sets S vs S+{r} and file sets F vs '
                'F+{f} (context-free cleavage rule; for enumerable inputs an added peptide must not have been demanded without r; dense 6-12 record '
                'clusters with limits disabled are compared by strict inclusion only); restrictive switches noncanonical-transcripts and '
                'backsplicing-only give subsets; through the CLI with --threads 2/3/4, a second file holding only intronic records of other '
                'transcripts (the last one in annotation order among them) may only add peptides. non-trivial = pair evaluated; distinct = (kind, option, stratum, rule, ...).')
    rep.absorb(results, lost)
    for k in ('pairs', 'added_peptides', 'strict_pairs', 'boundary_chains', 'threaded_file_pairs'):
        if not rep.counters.get(k):
            rep.inconclusive.append(f'monitor {k} had zero evaluations')
