"""C11 - reference model: coordinate conversions, sequences, ORF/Sec positions, on-disk vs parsed
annotation under arbitrary access sequences, GTF write -> parse round trip."""
from __future__ import annotations
import io
import random
from pathlib import Path

from harness import common, drivers
from harness.gen import refgen
from harness.model.seqmodel import revcomp

LEVEL = 'exploration'
IN_INTRON = 'The genomic index seems to be in an intron'


def model_summary(tx_model, gene_id=None):
    """Comparable summary of a TranscriptAnnotationModel."""
    def locs(lst):
        return [(int(x.location.start), int(x.location.end)) for x in lst]
    t = tx_model.transcript
    return {'tx': (t.chrom, int(t.location.start), int(t.location.end), t.strand), 'exon': locs(tx_model.exon),
            'cds': [(int(x.location.start), int(x.location.end), x.frame) for x in tx_model.cds],
            'sec': locs(tx_model.selenocysteine), 'utr': sorted(locs(tx_model.utr) + locs(tx_model.five_utr) + locs(tx_model.three_utr)),
            'nf': (tx_model.is_cds_start_nf(), tx_model.is_mrna_end_nf()), 'gene_id': tx_model.gene_id}


def run_case(spec):
    from moPepGen import gtf, dna
    from moPepGen.gtf import GtfIO
    import moPepGen
    rng = random.Random(spec['seed'])
    style = spec.get('style', 'GENCODE')
    utr_incl = rng.random() < 0.5 if style == 'GENCODE' else False
    ref = refgen.make_reference(rng, n_genes=rng.randint(1, 5), isoforms=(1, 3), n_chroms=rng.randint(1, 2),
                                sec_p=0.3, nf_p=0.25, min_exons=1, max_exons=6, exon_len=(5, 90), intron_len=(3, 60),
                                short_exon_p=0.15)
    wd = drivers.case_dir('c11-')
    viol = []
    counters = {'cases': 1, 'positions': 0, 'tx_positions': 0, 'accesses': 0}
    try:
        refgen.write_reference(ref, wd, style=style, utr_includes_stop=utr_incl)
        if spec.get('unicode'):
            # multi-byte characters in attribute values: byte offsets vs character offsets
            p = Path(wd) / 'annotation.gtf'
            txt = p.read_text().replace('gene_name "GENE', 'gene_name "GÈNE')
            p.write_text(txt, encoding='utf-8')
        genome = dna.DNASeqDict()
        genome.dump_fasta(f'{wd}/genome.fasta')
        anno = gtf.GenomicAnnotation()
        anno.dump_gtf(f'{wd}/annotation.gtf')
        disk = gtf.GenomicAnnotationOnDisk()
        disk.generate_index(Path(wd) / 'annotation.gtf')

        def bad(kind, msg):
            if len(viol) < 8:
                viol.append({'kind': kind, 'msg': msg})

        # ---------------- (a) exhaustive per position
        for gene in ref.genes:
            gm = anno.genes[gene.id]
            gseq = ref.gene_seq(gene)
            if str(gm.get_gene_sequence(genome[gene.chrom]).seq) != gseq:
                bad('gene-sequence', f'{gene.id} strand {gene.strand}')
            for g in range(len(gene)):
                counters['positions'] += 1
                gen = gene.g2genomic(g)
                a = anno.coordinate_gene_to_genomic(g, gene.id)
                if a != gen:
                    bad('gene-to-genomic', f'{gene.id} strand {gene.strand} g={g}: {a} != {gen}')
                    break
                if anno.coordinate_genomic_to_gene(gen, gene.id) != g:
                    bad('genomic-to-gene', f'{gene.id} genomic={gen}')
                    break
            for outside in (gene.start - 1, gene.end):
                try:
                    r = anno.coordinate_genomic_to_gene(outside, gene.id)
                    bad('genomic-to-gene-outside-accepted', f'{gene.id} genomic={outside} -> {r}')
                except ValueError:
                    pass
            for tx in gene.txs:
                tm = anno.transcripts[tx.id]
                tseq = ref.tx_seq(tx)
                rec = tm.get_transcript_sequence(genome[gene.chrom])
                if str(rec.seq) != tseq:
                    bad('transcript-sequence', f'{tx.id} strand {gene.strand} exons {tx.exons}')
                    continue
                if tx.coding:
                    cs, ce = tx.cds
                    want_start = cs
                    L = len(tseq)
                    has_3utr = ce < L if utr_incl else ce + 3 < L
                    if has_3utr:
                        e0 = ce if utr_incl else ce + 3
                        want_end = e0 - (e0 - want_start) % 3
                    else:
                        want_end = L - (L - want_start) % 3
                    if rec.orf is None or int(rec.orf.start) != want_start or int(rec.orf.end) != want_end:
                        bad('orf-position', f'{tx.id} strand {gene.strand} cds {tx.cds} nf {(tx.cds_start_nf, tx.mrna_end_nf)} utr_includes_stop={utr_incl} '
                                            f'len {L}: orf {rec.orf and (int(rec.orf.start), int(rec.orf.end))} expected {(want_start, want_end)}')
                    secs = sorted((int(x.start), int(x.end)) for x in rec.selenocysteine)
                    if secs != [(c, c + 3) for c in tx.sec]:
                        bad('sec-position', f'{tx.id} strand {gene.strand}: {secs} expected {[(c, c + 3) for c in tx.sec]}')
                    if (tm.is_cds_start_nf(), tm.is_mrna_end_nf()) != (tx.cds_start_nf, tx.mrna_end_nf):
                        bad('nf-tags', tx.id)
                elif rec.orf is not None:
                    bad('orf-on-noncoding', tx.id)
                lo, hi = tx.exons[0][0], tx.exons[-1][1]
                for g in range(len(gene)):
                    counters['tx_positions'] += 1
                    want = tx.gene2tx(g)
                    try:
                        got = anno.coordinate_gene_to_transcript(g, gene.id, tx.id)
                        err = None
                    except ValueError as e:
                        got, err = None, str(e)
                    if want is not None:
                        if got != want:
                            bad('gene-to-transcript', f'{tx.id} strand {gene.strand} exons {tx.exons} g={g}: {got} ({err}) != {want}')
                            break
                    else:
                        if got is not None:
                            bad('intronic-position-mapped', f'{tx.id} strand {gene.strand} exons {tx.exons} g={g} -> {got}')
                            break
                        if lo <= g < hi and IN_INTRON not in err and 'intron' not in err.lower():
                            bad('intronic-position-wrong-error', f'{tx.id} g={g}: {err}')
                            break
                for t in range(tx.tx_len()):
                    want = gene.g2genomic(tx.tx2gene(t))
                    got = anno.coordinate_transcript_to_genomic(t, tx.id)
                    if got != want:
                        bad('transcript-to-genomic', f'{tx.id} strand {gene.strand} exons {tx.exons} t={t}: {got} != {want}')
                        break
                    if tm.get_transcript_index(got) != t:
                        bad('transcript-roundtrip', f'{tx.id} t={t}')
                        break
        # ---------------- (b) on-disk == parsed under an access history longer than the cache
        tx_ids = [t.id for t in ref.all_txs()]
        gene_ids = [g.id for g in ref.genes]
        hist = []
        for _ in range(max(60, 6 * len(tx_ids))):
            if rng.random() < 0.6:
                hist.append(('tx', rng.choice(tx_ids)))
            else:
                hist.append(('gene', rng.choice(gene_ids)))
        for kind, key in hist:
            counters['accesses'] += 1
            if kind == 'tx':
                a, b = model_summary(anno.transcripts[key]), model_summary(disk.transcripts[key])
                if a != b:
                    bad('ondisk-transcript-differs', f'{key}: parsed {a} on-disk {b}')
                    break
            else:
                ga, gb = anno.genes[key], disk.genes[key]
                sa = (ga.chrom, int(ga.location.start), int(ga.location.end), ga.strand, sorted(ga.transcripts))
                sb = (gb.chrom, int(gb.location.start), int(gb.location.end), gb.strand, sorted(gb.transcripts))
                if sa != sb:
                    bad('ondisk-gene-differs', f'{key}: parsed {sa} on-disk {sb}')
                    break
        # ---------------- (c) write -> parse round trip
        buf = io.StringIO()
        GtfIO.write(buf, anno)
        (Path(wd) / 'rt.gtf').write_text(buf.getvalue())
        anno2 = gtf.GenomicAnnotation()
        anno2.dump_gtf(f'{wd}/rt.gtf', source=anno.source)
        counters['roundtrips'] = 1
        if set(anno2.transcripts) != set(anno.transcripts) or set(anno2.genes) != set(anno.genes):
            bad('gtf-roundtrip-keys', 'gene / transcript ids differ after write -> parse')
        else:
            for tid in anno.transcripts:
                a, b = model_summary(anno.transcripts[tid]), model_summary(anno2.transcripts[tid])
                if a != b:
                    diff = {k: (a[k], b[k]) for k in a if a[k] != b[k]}
                    bad('gtf-roundtrip-model', f'{tid} (style {style}): {diff}')
                    break
                tx = ref.tx_by_id(tid)
                r1 = anno.transcripts[tid].get_transcript_sequence(genome[tx.gene.chrom])
                r2 = anno2.transcripts[tid].get_transcript_sequence(genome[tx.gene.chrom])
                o1 = r1.orf and (int(r1.orf.start), int(r1.orf.end))
                o2 = r2.orf and (int(r2.orf.start), int(r2.orf.end))
                if o1 != o2:
                    bad('gtf-roundtrip-orf', f'{tid} (style {style}): orf {o1} -> {o2}')
                    break
        feat = (style, utr_incl, len(ref.genes), max(len(g.txs) for g in ref.genes), sorted({g.strand for g in ref.genes}),
                any(t.sec for t in ref.all_txs()), any(t.cds_start_nf or t.mrna_end_nf for t in ref.all_txs()), bool(spec.get('unicode')),
                len(tx_ids) > 10)
        return {'nontrivial': True, 'feature': feat, 'violations': viol, 'counters': counters,
                'sample': {'style': style, 'genes': [(g.id, g.strand, len(g), [(t.id, t.exons, t.cds, t.sec) for t in g.txs]) for g in ref.genes][:2],
                           'positions': counters['positions'], 'accesses': counters['accesses']}}
    finally:
        drivers.rm(wd)


def check(rep, tier, seed, specs=None, n_override=None):
    quick = tier == 'quick'
    if specs is None:
        n = n_override or (6000 if quick else 60000)
        specs = [{'seed': common.hash64('c11', 'fixed' if i < n // 2 else seed, i), 'style': 'ENSEMBL' if i % 4 == 3 else 'GENCODE',
                  'unicode': i % 7 == 0} for i in range(n)]
    results, lost = common.shard_run('c11', specs, timeout_s=1500 if quick else 6 * 3600)
    rep.rule = ('generated annotations (1-5 genes on 1-2 chromosomes, both strands, 1-3 isoforms, 1-6 exons of 3-90 nt, introns 3-60 nt, CDS frames, '
                'UTR-includes-stop and UTR-excludes-stop conventions, Sec, NF tags, GENCODE and ENSEMBL attribute styles, non-ASCII attribute values); '
                'EVERY position of every gene and transcript: gene<->genomic<->transcript conversions against the object model, intronic positions must '
                'raise the intron error, sequences == strand-corrected genome slices, ORF start/end and Sec locations == model; on-disk annotation vs '
                'parsed annotation under random access histories longer than the pointer cache (10); GtfIO.write -> parse must preserve every model and '
                'ORF. non-trivial = every case; distinct = (style, UTR convention, sizes, strands, Sec, NF, unicode).')
    rep.absorb(results, lost)
    rep.exhaustive = True
    rep.extra['exhaustive_scope'] = 'all positions of every generated gene / transcript; annotations and access histories are sampled'
    for k in ('positions', 'tx_positions', 'accesses', 'roundtrips'):
        if not rep.counters.get(k):
            rep.inconclusive.append(f'monitor {k} had zero evaluations')
