"""C19 - filterFasta keeps exactly the entries satisfying its criteria; idempotent and monotone."""
from __future__ import annotations
import argparse
import random
from pathlib import Path

from harness import common, drivers, cvengine as cv
from harness.model import rules
from harness.monitors import cvmon

LEVEL = 'exploration'
AS_TAGS = ('SE', 'A5SS', 'A3SS', 'RI', 'MXE')


def entry_info(ent):
    backbone, ids, orf, idx = cv.parse_entry(ent)
    if backbone.startswith('FUSION-'):
        body = backbone[len('FUSION-'):]
        first, second = body.split('-', 1)
        return 'fusion', [first.rsplit(':', 1)[0], second.rsplit(':', 1)[0]], ids
    if backbone.startswith('CIRC-') or backbone.startswith('CI-'):
        return 'circ', [backbone.split('-', 2)[1]], ids
    return 'base', [backbone], ids


def is_as_id(x):
    """Alternative-splicing record id as written by parseRMATS: <SE|A5SS|A3SS|RI|MXE>_<coordinates> (older form with '-'),
    possibly prefixed by '<gene id>-'. A SECT-<n> id is NOT one (it merely contains the letters 'SE')."""
    import re
    return any(tok in AS_TAGS for tok in re.split('[-_]', x))


def is_novel_orf(ent):
    """Gene-qualified novel-ORF entry (tx|gene|[alt ids]|ORFn|idx): carries no variant of its own."""
    f = ent.split('|')
    return len(f) >= 3 and f[1].startswith('ENSG')


def keep_entry(ent, coding, exprs, cutoff, keep_all_coding, keep_all_noncoding, denylisted, keep_canonical):
    kind, txs, ids = entry_info(ent)
    all_noncoding = not any(t in coding for t in txs)
    all_coding = all(t in coding for t in txs)
    is_canonical = kind != 'circ' and txs[0] in coding
    if denylisted and not (keep_canonical and is_canonical):
        return False
    if keep_all_noncoding and all_noncoding:
        return True
    if keep_all_coding and all_coding:
        return True
    if exprs is None:
        return True
    if kind in ('fusion', 'circ'):
        return True
    if kind == 'base' and not is_novel_orf(ent) and any(is_as_id(x) for x in ids):
        return True
    return all(exprs[t] >= cutoff for t in txs)


def model_filter(fa, coding, exprs, cutoff, kac, kan, deny, kcanon, enzyme, misc_range):
    out = {}
    exc = 'trypsin_exception' if enzyme == 'trypsin' else None
    for h, s in fa:
        if misc_range is not None:
            n = len(rules.cleave_sites(s, enzyme, exc))
            lo, hi = misc_range
            if lo is not None and n < lo:
                continue
            if hi is not None and n > hi:
                continue
        kept = [e for e in h.split(' ') if keep_entry(e, coding, exprs, cutoff, kac, kan, s in deny, kcanon)]
        if kept:
            out[s] = set()
            for e in kept:
                b, ids, orf, idx = cv.parse_entry(e)
                out[s].add((b, tuple(sorted(ids)), orf, idx))
    return out


def run_filter(wd, name, inp, opts):
    from moPepGen.cli.filter_fasta import filter_fasta
    outp = Path(wd) / f'{name}.fasta'
    a = argparse.Namespace(command='filterFasta', input_path=Path(inp), output_path=outp, quiet=True, debug_level=1,
                           genome_fasta=None, proteome_fasta=None, reference_source=None, **opts)
    with drivers.quiet():
        filter_fasta(a)
    return drivers.read_fasta(outp)


def judge(rng, ref, wd, fa, counters, viol, synthetic=False):
    coding_true = {t.id for t in ref.all_txs() if t.coding}
    use_index = rng.random() < 0.75
    if use_index:
        idx = drivers.generate_index(wd, f'{wd}/index')
        refopt = dict(index_dir=idx, annotation_gtf=None)
        coding = coding_true
    else:
        refopt = dict(index_dir=None, annotation_gtf=Path(wd) / 'annotation.gtf')
        coding = coding_true
    # expression table: values at cutoff-eps / cutoff / cutoff+eps
    cutoff = rng.choice([0.0, 1.0, 5.5, 10.0])
    txs = [t.id for t in ref.all_txs()]
    exprs = {t: rng.choice([cutoff - 0.01, cutoff, cutoff + 0.01, 0.0, cutoff * 2 + 1]) for t in txs}
    has_header = rng.random() < 0.5
    delim = rng.choice(['\t', ','])
    with open(f'{wd}/expr.txt', 'w') as fh:
        skip = rng.randint(0, 2)
        for _ in range(skip):
            fh.write('# comment line\n')
        if has_header:
            fh.write(delim.join(['transcript_id', 'gene', 'TPM']) + '\n')
        # transcripts that occur only in entries exempt from the expression rule (fusion / circRNA / splice-altering), or in no
        # entry at all, may be absent from the table (e.g. a fusion partner that was not quantified)
        needed = set()
        for h_, _s in fa:
            for e_ in h_.split(' '):
                kind_, txs_, ids_ = entry_info(e_)
                if not (kind_ in ('fusion', 'circ') or (kind_ == 'base' and not is_novel_orf(e_) and any(is_as_id(x) for x in ids_))):
                    needed.update(txs_)
        optional = [t for t in txs if t not in needed]
        omitted = set(rng.sample(optional, rng.randint(1, len(optional)))) if optional and rng.random() < 0.5 else set()
        counters['tables_with_missing_transcripts'] = int(bool(omitted))
        for t in txs:
            if t in omitted:
                continue
            fh.write(delim.join([t, 'G', repr(exprs[t])]) + '\n')
    use_expr = rng.random() < 0.8
    if has_header and rng.random() < 0.5:
        cols = ('transcript_id', 'TPM')
    else:
        cols = ('1', '3')
    if has_header and cols == ('1', '3'):
        skip += 1          # numeric columns: the header line has to be skipped by the user
    seqs = [s for _, s in fa]
    deny = set(rng.sample(seqs, rng.randint(0, min(4, len(seqs))))) if rng.random() < 0.5 else set()
    if deny:
        with open(f'{wd}/deny.fasta', 'w') as fh:
            for i, s in enumerate(sorted(deny)):
                fh.write(f'>d{i}\n{s}\n')
    lo = rng.choice([None, 0, 1])
    hi = rng.choice([None, 0, 1, 2])
    misc = None if (lo is None and hi is None) or rng.random() < 0.4 else (lo, hi)
    enzyme = rng.choice(['trypsin', 'trypsin', 'lysc'])
    opts = dict(denylist=Path(wd) / 'deny.fasta' if deny else None,
                exprs_table=Path(wd) / 'expr.txt' if use_expr else None, skip_lines=skip, delimiter=delim,
                tx_id_col=cols[0], quant_col=cols[1], quant_cutoff=cutoff if use_expr else None,
                keep_all_coding=rng.random() < 0.3, keep_all_noncoding=rng.random() < 0.3,
                keep_canonical=rng.random() < 0.4,
                miscleavages=None if misc is None else f"{'' if misc[0] is None else misc[0]}:{'' if misc[1] is None else misc[1]}",
                enzyme=enzyme, **refopt)
    if misc is not None and (misc[0] is None or misc[1] is None):
        # the CLI parses both bounds with int(): an open bound is not accepted; use closed ranges only
        misc = (misc[0] if misc[0] is not None else 0, misc[1] if misc[1] is not None else 9)
        opts['miscleavages'] = f'{misc[0]}:{misc[1]}'
    inp = f'{wd}/out.fasta'
    got = run_filter(wd, 'f1', inp, opts)
    counters['filter_runs'] = 1

    def canon(h):
        out = set()
        for e in h.split(' '):
            b, ids, orf, idx = cv.parse_entry(e)
            out.add((b, tuple(sorted(ids)), orf, idx))
        return out
    want = model_filter(fa, coding, exprs if use_expr else None, cutoff, opts['keep_all_coding'],
                        opts['keep_all_noncoding'], deny, opts['keep_canonical'], enzyme, misc)
    gotd = {s: canon(h) for h, s in got}
    mech = None
    if gotd != want and not use_index:
        want0 = model_filter(fa, set(), exprs if use_expr else None, cutoff, opts['keep_all_coding'],
                             opts['keep_all_noncoding'], deny, opts['keep_canonical'], enzyme, misc)
        if gotd == want0:
            mech = 'KF-FILTER-GTF-CODING'
    if gotd != want:
        only_w = sorted(set(want) - set(gotd))[:3]
        only_g = sorted(set(gotd) - set(want))[:3]
        diff = [(s, sorted(gotd[s]), sorted(want[s])) for s in gotd if s in want and gotd[s] != want[s]][:2]
        viol.append({'kind': 'filter-mismatch', 'mech': mech,
                     'msg': f'options { {k: str(v) for k, v in opts.items() if k not in ("index_dir", "annotation_gtf")} } '
                            f'reference={"index" if use_index else "gtf"}: dropped-but-expected {only_w} kept-but-unexpected {only_g} '
                            f'entry differences {diff}'})
    if len(got) != len(gotd):
        viol.append({'kind': 'filter-duplicates', 'msg': 'a sequence occurs twice in the output'})
    entries_in = {s: canon(h) for h, s in fa}
    for s, es in gotd.items():
        if s not in entries_in or not es <= entries_in[s]:
            viol.append({'kind': 'filter-not-subcollection', 'msg': f'{s}: {sorted(es)}'})
            break
    # idempotence
    got2 = run_filter(wd, 'f2', f'{wd}/f1.fasta', opts)
    if {s: canon(h) for h, s in got2} != gotd:
        viol.append({'kind': 'filter-not-idempotent', 'msg': f'{len(gotd)} -> {len(got2)} peptides on the second pass',
                     'mech': mech})
    counters['idempotence_runs'] = 1
    # monotonicity: stricter cutoff, narrower miscleavage range
    if use_expr:
        o2 = dict(opts)
        o2['quant_cutoff'] = cutoff + rng.choice([0.005, 0.02, 3.0])
        got3 = {s: canon(h) for h, s in run_filter(wd, 'f3', inp, o2)}
        counters['monotone_runs'] = counters.get('monotone_runs', 0) + 1
        if not all(s in gotd and es <= gotd[s] for s, es in got3.items()):
            viol.append({'kind': 'filter-not-monotone-cutoff', 'msg': f'cutoff {cutoff} -> {o2["quant_cutoff"]} keeps more'})
    if misc is not None and misc[1] - misc[0] >= 1:
        o3 = dict(opts)
        o3['miscleavages'] = f'{misc[0] + 1}:{misc[1]}' if rng.random() < 0.5 else f'{misc[0]}:{misc[1] - 1}'
        got4 = {s: canon(h) for h, s in run_filter(wd, 'f4', inp, o3)}
        counters['monotone_runs'] = counters.get('monotone_runs', 0) + 1
        if not all(s in gotd and es <= gotd[s] for s, es in got4.items()):
            viol.append({'kind': 'filter-not-monotone-miscleavage', 'msg': f'{opts["miscleavages"]} -> {o3["miscleavages"]} keeps more'})
    kinds = sorted({entry_info(e)[0] for h, _ in fa for e in h.split(' ')})
    feat = (tuple(kinds), use_index, use_expr, bool(deny), opts['keep_all_coding'], opts['keep_all_noncoding'],
            opts['keep_canonical'], misc is not None, enzyme, has_header, cols[0].isdecimal(),
            0 < len(gotd) < len(fa))
    return {'nontrivial': True, 'feature': feat, 'violations': viol, 'counters': counters,
            'sample': {'options': {k: str(v) for k, v in opts.items()}, 'input_peptides': len(fa), 'kept': len(gotd),
                       'expression': dict(list(exprs.items())[:3]), 'cutoff': cutoff}}





AA = 'ACDEFGHIKLMNPQRSTVWYKRKR'


def synth_fasta(rng, ref):
    """G-FASTA: peptides with arbitrary multi-entry headers of every label kind the tool emits (base with SNV / INDEL / MNV /
    alternative-splicing / SECT / W2F ids, gene-qualified novel-ORF entries, fusion entries over every ordered transcript pair
    with 1-/2- prefixed ids, circRNA / ciRNA entries), over coding and non-coding transcripts."""
    txs = list(ref.all_txs())

    def small_id():
        k = rng.random()
        n = rng.randint(1, 400)
        if k < 0.5:
            a, b = rng.sample('ACGT', 2)
            return f'SNV-{n}-{a}-{b}'
        if k < 0.8:
            a = rng.choice('ACGT')
            return rng.choice([f'INDEL-{n}-{a}-{a}{rng.choice("ACGT")}', f'INDEL-{n}-{a}{rng.choice("ACGT")}G-{a}'])
        return f'MNV-{n}-AC-GT'

    def as_id():
        a = rng.randint(1, 300)
        b = a + rng.randint(5, 80)
        t = rng.choice(AS_TAGS)
        if t == 'MXE':
            return f'MXE_{a}-{b}-{b + 20}-{b + 60}'
        if t == 'RI':
            return f'RI_{a}-{a + 1}-{b}'
        return f'{t}_{a}-{b}'

    def entry(idx):
        k = rng.random()
        tx = rng.choice(txs)
        if k < 0.45:
            ids = [small_id() for _ in range(rng.randint(0, 2))]
            if rng.random() < 0.25:
                ids.append(as_id())
            if rng.random() < 0.15:
                ids.append(rng.choice([f'SECT-{rng.randint(1, 300)}', f'W2F-{rng.randint(1, 12)}']))
            if not ids:
                ids = [small_id()]
            rng.shuffle(ids)
            f = [tx.id] + ids
            if not tx.coding or rng.random() < 0.1:
                if all(x.startswith(('SECT-', 'W2F-')) for x in ids):
                    f.insert(1, tx.gene.id)     # novel-ORF peptide with alt-translation ids only: gene-qualified (callNovelORF --w2f)
                f.append(f'ORF{rng.randint(1, 4)}')
            return '|'.join(f + [str(idx)])
        if k < 0.55:
            return f'{tx.id}|{tx.gene.id}|ORF{rng.randint(1, 4)}|{idx}'      # novel ORF peptide without variants
        if k < 0.85:
            t2 = rng.choice(txs)
            f = [f'FUSION-{tx.id}:{rng.randint(1, 300)}-{t2.id}:{rng.randint(1, 300)}']
            for _ in range(rng.randint(0, 2)):
                f.append(f'{rng.choice([1, 2])}-{small_id()}')
            if not tx.coding or rng.random() < 0.1:
                f.append(f'ORF{rng.randint(1, 3)}')
            return '|'.join(f + [str(idx)])
        a = rng.randint(0, 200)
        f = [f'{rng.choice(["CIRC", "CIRC", "CI"])}-{tx.id}-{a}:{a + rng.randint(20, 200)}']
        for _ in range(rng.randint(0, 2)):
            f.append(small_id())
        f.append(f'ORF{rng.randint(1, 3)}')
        return '|'.join(f + [str(idx)])
    fa = []
    seen = set()
    for i in range(rng.randint(4, 30)):
        s = ''.join(rng.choice(AA) for _ in range(rng.randint(6, 22)))
        if s in seen:
            continue
        seen.add(s)
        ents = []
        for j in range(rng.choice([1, 1, 2, 3])):
            e = entry(len(fa) * 4 + j + 1)
            if e not in ents:
                ents.append(e)
        fa.append((' '.join(ents), s))
    return fa


def synth_case(spec):
    from harness.gen import refgen
    rng = random.Random(spec['seed'])
    ref = refgen.make_reference(rng, n_genes=rng.randint(2, 4), coding_p=0.5, isoforms=(1, 2), min_exons=1, max_exons=3,
                                exon_len=(30, 90))
    wd = drivers.case_dir('c19s-')
    try:
        refgen.write_reference(ref, wd)
        fa = synth_fasta(rng, ref)
        with open(f'{wd}/out.fasta', 'w') as fh:
            for h, s in fa:
                fh.write(f'>{h}\n{s}\n')
        return judge(rng, ref, wd, fa, {'cases': 1, 'synthetic_cases': 1}, [], synthetic=True)
    finally:
        drivers.rm(wd)


def run_case(spec):
    if spec.get('kind') == 'synth':
        return synth_case(spec)
    rng = random.Random(spec['seed'])
    case = None
    for k in range(6):
        case = cv.build_case({'seed': common.hash64(spec['seed'], k), 'stratum': rng.choice(
            ['small', 'multi', 'multi', 'as', 'fusion_var', 'circ_var']),
            'cfg': {'rule': 'trypsin', 'exception': None, 'min_length': 5, 'min_mw': 0., 'miscleavage': rng.choice([2, 3]),
                    'sect': spec.get('sect', False), 'w2f': rng.random() < 0.2}})
        if case is not None:
            break
    if case is None:
        return {'skipped': True}
    wd = drivers.case_dir('c19-')
    viol = []
    counters = {'cases': 1}
    try:
        paths = cv.write_case(case, wd)
        try:
            fa, _ = cvmon.execute(case, wd, paths)
        except Exception:
            # callVariant only PRODUCES the input of this check; its crashes on valid input are decided by C01
            return {'nontrivial': False, 'counters': {'cases': 1, 'input_generation_crashed': 1}}
        if not fa:
            return {'nontrivial': False, 'counters': {'cases': 1, 'empty_fasta': 1}}
        return judge(rng, case.ref, wd, fa, counters, viol)
    finally:
        drivers.rm(wd)


def check(rep, tier, seed, specs=None, n_override=None):
    quick = tier == 'quick'
    if specs is None:
        n = n_override or (1200 if quick else 60000)
        specs = [{'seed': common.hash64('c19', 'fixed' if i < n // 2 else seed, i), 'sect': i % 3 == 0} for i in range(n)]
        ns_ = n * 3
        specs += [{'kind': 'synth', 'seed': common.hash64('c19s', 'fixed' if i < ns_ // 2 else seed, i)} for i in range(ns_)]
    results, lost = common.shard_run('c19', specs, timeout_s=1500 if quick else 5 * 3600)
    rep.rule = ('real callVariant FASTAs (base, AS, fusion, circRNA entries; multi-isoform) x expression tables with values at cutoff-0.01 / '
                'cutoff / cutoff+0.01 (header or not, tab or comma, column by name or number, skipped lines) x denylists drawn from the input x '
                'keep-all-coding / keep-all-noncoding / keep-canonical x miscleavage ranges x enzyme x reference as generateIndex directory (75%) '
                'or raw GTF; own per-entry predicate from the documented rule; plus idempotence (second pass) and monotonicity (stricter cutoff, '
                'narrower miscleavage range). Three quarters of the cases use generated FASTAs instead (arbitrary multi-entry headers of every label '
                'kind: base / gene-qualified novel ORF / fusion over every ordered coding x non-coding transcript pair / circRNA / ciRNA, with '
                'SNV, INDEL, MNV, alternative-splicing, SECT and W2F ids). non-trivial = non-empty input FASTA; distinct = option vector.')
    rep.absorb(results, lost)
    for k in ('filter_runs', 'idempotence_runs', 'monotone_runs'):
        if not rep.counters.get(k):
            rep.inconclusive.append(f'monitor {k} had zero evaluations')
