"""C19 - filterFasta keeps exactly the entries satisfying its criteria; idempotent and monotone."""
from __future__ import annotations
import argparse
import random
from pathlib import Path

from harness import common, drivers, cvengine as cv
from harness.model import rules
from harness.monitors import cvmon

LEVEL = 'exploration'
AS_TAGS = ('SE', 'A5SS', 'A3SS', 'RI', 'MXE')


def entry_info(ent):
    backbone, ids, orf, idx = cv.parse_entry(ent)
    if backbone.startswith('FUSION-'):
        body = backbone[len('FUSION-'):]
        first, second = body.split('-', 1)
        return 'fusion', [first.rsplit(':', 1)[0], second.rsplit(':', 1)[0]], ids
    if backbone.startswith('CIRC-') or backbone.startswith('CI-'):
        return 'circ', [backbone.split('-', 2)[1]], ids
    return 'base', [backbone], ids


def keep_entry(ent, coding, exprs, cutoff, keep_all_coding, keep_all_noncoding, denylisted, keep_canonical):
    kind, txs, ids = entry_info(ent)
    all_noncoding = not any(t in coding for t in txs)
    all_coding = all(t in coding for t in txs)
    is_canonical = kind != 'circ' and txs[0] in coding
    if denylisted and not (keep_canonical and is_canonical):
        return False
    if keep_all_noncoding and all_noncoding:
        return True
    if keep_all_coding and all_coding:
        return True
    if exprs is None:
        return True
    if kind in ('fusion', 'circ'):
        return True
    if kind == 'base' and any(any(t in x for t in AS_TAGS) for x in ids):
        return True
    return all(exprs[t] >= cutoff for t in txs)


def model_filter(fa, coding, exprs, cutoff, kac, kan, deny, kcanon, enzyme, misc_range):
    out = {}
    exc = 'trypsin_exception' if enzyme == 'trypsin' else None
    for h, s in fa:
        if misc_range is not None:
            n = len(rules.cleave_sites(s, enzyme, exc))
            lo, hi = misc_range
            if lo is not None and n < lo:
                continue
            if hi is not None and n > hi:
                continue
        kept = [e for e in h.split(' ') if keep_entry(e, coding, exprs, cutoff, kac, kan, s in deny, kcanon)]
        if kept:
            out[s] = set()
            for e in kept:
                b, ids, orf, idx = cv.parse_entry(e)
                out[s].add((b, tuple(sorted(ids)), orf, idx))
    return out


def run_filter(wd, name, inp, opts):
    from moPepGen.cli.filter_fasta import filter_fasta
    outp = Path(wd) / f'{name}.fasta'
    a = argparse.Namespace(command='filterFasta', input_path=Path(inp), output_path=outp, quiet=True, debug_level=1,
                           genome_fasta=None, proteome_fasta=None, reference_source=None, **opts)
    with drivers.quiet():
        filter_fasta(a)
    return drivers.read_fasta(outp)


def run_case(spec):
    rng = random.Random(spec['seed'])
    case = None
    for k in range(6):
        case = cv.build_case({'seed': common.hash64(spec['seed'], k), 'stratum': rng.choice(
            ['small', 'multi', 'multi', 'as', 'fusion_var', 'circ_var']),
            'cfg': {'rule': 'trypsin', 'exception': None, 'min_length': 5, 'min_mw': 0., 'miscleavage': rng.choice([2, 3]),
                    'sect': False, 'w2f': rng.random() < 0.2}})
        if case is not None:
            break
    if case is None:
        return {'skipped': True}
    wd = drivers.case_dir('c19-')
    viol = []
    counters = {'cases': 1}
    try:
        paths = cv.write_case(case, wd)
        fa, _ = cvmon.execute(case, wd, paths)
        if not fa:
            return {'nontrivial': False, 'counters': {'cases': 1, 'empty_fasta': 1}}
        coding_true = {t.id for t in case.ref.all_txs() if t.coding}
        use_index = rng.random() < 0.75
        if use_index:
            idx = drivers.generate_index(wd, f'{wd}/index')
            ref = dict(index_dir=idx, annotation_gtf=None)
            coding = coding_true
        else:
            ref = dict(index_dir=None, annotation_gtf=Path(wd) / 'annotation.gtf')
            coding = coding_true
        # expression table: values at cutoff-eps / cutoff / cutoff+eps
        cutoff = rng.choice([0.0, 1.0, 5.5, 10.0])
        txs = [t.id for t in case.ref.all_txs()]
        exprs = {t: rng.choice([cutoff - 0.01, cutoff, cutoff + 0.01, 0.0, cutoff * 2 + 1]) for t in txs}
        has_header = rng.random() < 0.5
        delim = rng.choice(['\t', ','])
        with open(f'{wd}/expr.txt', 'w') as fh:
            skip = rng.randint(0, 2)
            for _ in range(skip):
                fh.write('# comment line\n')
            if has_header:
                fh.write(delim.join(['transcript_id', 'gene', 'TPM']) + '\n')
            for t in txs:
                fh.write(delim.join([t, 'G', repr(exprs[t])]) + '\n')
        use_expr = rng.random() < 0.8
        if has_header and rng.random() < 0.5:
            cols = ('transcript_id', 'TPM')
        else:
            cols = ('1', '3')
        if has_header and cols == ('1', '3'):
            skip += 1          # numeric columns: the header line has to be skipped by the user
        seqs = [s for _, s in fa]
        deny = set(rng.sample(seqs, rng.randint(0, min(4, len(seqs))))) if rng.random() < 0.5 else set()
        if deny:
            with open(f'{wd}/deny.fasta', 'w') as fh:
                for i, s in enumerate(sorted(deny)):
                    fh.write(f'>d{i}\n{s}\n')
        lo = rng.choice([None, 0, 1])
        hi = rng.choice([None, 0, 1, 2])
        misc = None if (lo is None and hi is None) or rng.random() < 0.4 else (lo, hi)
        enzyme = rng.choice(['trypsin', 'trypsin', 'lysc'])
        opts = dict(denylist=Path(wd) / 'deny.fasta' if deny else None,
                    exprs_table=Path(wd) / 'expr.txt' if use_expr else None, skip_lines=skip, delimiter=delim,
                    tx_id_col=cols[0], quant_col=cols[1], quant_cutoff=cutoff if use_expr else None,
                    keep_all_coding=rng.random() < 0.3, keep_all_noncoding=rng.random() < 0.3,
                    keep_canonical=rng.random() < 0.4,
                    miscleavages=None if misc is None else f"{'' if misc[0] is None else misc[0]}:{'' if misc[1] is None else misc[1]}",
                    enzyme=enzyme, **ref)
        if misc is not None and (misc[0] is None or misc[1] is None):
            # the CLI parses both bounds with int(): an open bound is not accepted; use closed ranges only
            misc = (misc[0] if misc[0] is not None else 0, misc[1] if misc[1] is not None else 9)
            opts['miscleavages'] = f'{misc[0]}:{misc[1]}'
        inp = f'{wd}/out.fasta'
        got = run_filter(wd, 'f1', inp, opts)
        counters['filter_runs'] = 1

        def canon(h):
            out = set()
            for e in h.split(' '):
                b, ids, orf, idx = cv.parse_entry(e)
                out.add((b, tuple(sorted(ids)), orf, idx))
            return out
        want = model_filter(fa, coding, exprs if use_expr else None, cutoff, opts['keep_all_coding'],
                            opts['keep_all_noncoding'], deny, opts['keep_canonical'], enzyme, misc)
        gotd = {s: canon(h) for h, s in got}
        mech = None
        if gotd != want and not use_index:
            want0 = model_filter(fa, set(), exprs if use_expr else None, cutoff, opts['keep_all_coding'],
                                 opts['keep_all_noncoding'], deny, opts['keep_canonical'], enzyme, misc)
            if gotd == want0:
                mech = 'KF-FILTER-GTF-CODING'
        if gotd != want:
            only_w = sorted(set(want) - set(gotd))[:3]
            only_g = sorted(set(gotd) - set(want))[:3]
            diff = [(s, sorted(gotd[s]), sorted(want[s])) for s in gotd if s in want and gotd[s] != want[s]][:2]
            viol.append({'kind': 'filter-mismatch', 'mech': mech,
                         'msg': f'options { {k: str(v) for k, v in opts.items() if k not in ("index_dir", "annotation_gtf")} } '
                                f'reference={"index" if use_index else "gtf"}: dropped-but-expected {only_w} kept-but-unexpected {only_g} '
                                f'entry differences {diff}'})
        if len(got) != len(gotd):
            viol.append({'kind': 'filter-duplicates', 'msg': 'a sequence occurs twice in the output'})
        entries_in = {s: canon(h) for h, s in fa}
        for s, es in gotd.items():
            if s not in entries_in or not es <= entries_in[s]:
                viol.append({'kind': 'filter-not-subcollection', 'msg': f'{s}: {sorted(es)}'})
                break
        # idempotence
        got2 = run_filter(wd, 'f2', f'{wd}/f1.fasta', opts)
        if {s: canon(h) for h, s in got2} != gotd:
            viol.append({'kind': 'filter-not-idempotent', 'msg': f'{len(gotd)} -> {len(got2)} peptides on the second pass',
                         'mech': mech})
        counters['idempotence_runs'] = 1
        # monotonicity: stricter cutoff, narrower miscleavage range
        if use_expr:
            o2 = dict(opts)
            o2['quant_cutoff'] = cutoff + rng.choice([0.005, 0.02, 3.0])
            got3 = {s: canon(h) for h, s in run_filter(wd, 'f3', inp, o2)}
            counters['monotone_runs'] = counters.get('monotone_runs', 0) + 1
            if not all(s in gotd and es <= gotd[s] for s, es in got3.items()):
                viol.append({'kind': 'filter-not-monotone-cutoff', 'msg': f'cutoff {cutoff} -> {o2["quant_cutoff"]} keeps more'})
        if misc is not None and misc[1] - misc[0] >= 1:
            o3 = dict(opts)
            o3['miscleavages'] = f'{misc[0] + 1}:{misc[1]}' if rng.random() < 0.5 else f'{misc[0]}:{misc[1] - 1}'
            got4 = {s: canon(h) for h, s in run_filter(wd, 'f4', inp, o3)}
            counters['monotone_runs'] = counters.get('monotone_runs', 0) + 1
            if not all(s in gotd and es <= gotd[s] for s, es in got4.items()):
                viol.append({'kind': 'filter-not-monotone-miscleavage', 'msg': f'{opts["miscleavages"]} -> {o3["miscleavages"]} keeps more'})
        kinds = sorted({entry_info(e)[0] for h, _ in fa for e in h.split(' ')})
        feat = (tuple(kinds), use_index, use_expr, bool(deny), opts['keep_all_coding'], opts['keep_all_noncoding'],
                opts['keep_canonical'], misc is not None, enzyme, has_header, cols[0].isdecimal(),
                0 < len(gotd) < len(fa))
        return {'nontrivial': True, 'feature': feat, 'violations': viol, 'counters': counters,
                'sample': {'options': {k: str(v) for k, v in opts.items()}, 'input_peptides': len(fa), 'kept': len(gotd),
                           'expression': dict(list(exprs.items())[:3]), 'cutoff': cutoff}}
    finally:
        drivers.rm(wd)


def check(rep, tier, seed, specs=None, n_override=None):
    quick = tier == 'quick'
    if specs is None:
        n = n_override or (1200 if quick else 60000)
        specs = [{'seed': common.hash64('c19', 'fixed' if i < n // 2 else seed, i)} for i in range(n)]
    results, lost = common.shard_run('c19', specs, timeout_s=1500 if quick else 5 * 3600)
    rep.rule = ('real callVariant FASTAs (base, AS, fusion, circRNA entries; multi-isoform) x expression tables with values at cutoff-0.01 / '
                'cutoff / cutoff+0.01 (header or not, tab or comma, column by name or number, skipped lines) x denylists drawn from the input x '
                'keep-all-coding / keep-all-noncoding / keep-canonical x miscleavage ranges x enzyme x reference as generateIndex directory (75%) '
                'or raw GTF; own per-entry predicate from the documented rule; plus idempotence (second pass) and monotonicity (stricter cutoff, '
                'narrower miscleavage range). non-trivial = non-empty input FASTA; distinct = option vector.')
    rep.absorb(results, lost)
    for k in ('filter_runs', 'idempotence_runs', 'monotone_runs'):
        if not rep.counters.get(k):
            rep.inconclusive.append(f'monitor {k} had zero evaluations')
