"""C06 - the peptide set is independent of --threads, GVF file layout / order, .idx files, reference as
raw files or index directory, and the Python hash seed (paired executions against one base run)."""
from __future__ import annotations
import argparse
import os
import random
import shutil
from pathlib import Path

from harness import common, drivers, cvengine as cv
from harness.gen import refgen, gvfgen
from harness.monitors import cvmon

LEVEL = 'exploration'


def make_case(rng, n_tx, skip_set, n_chroms=1):
    """n_tx single-isoform genes in annotation order; transcripts in skip_set carry only an intronic record
    (their variant series is empty, so they are skipped by the dispatcher)."""
    c = cv.Case()
    c.stratum = 'sched'
    c.cfg = cv.gen_config(rng, 'sched', light=True)
    c.cfg['exception'] = None
    c.ref = refgen.make_reference(rng, n_genes=n_tx, min_exons=2, max_exons=3, exon_len=(40, 90), intron_len=(20, 40),
                                  n_chroms=n_chroms, coding_p=0.7)
    recs = []
    for i, gene in enumerate(c.ref.genes):
        tx = gene.txs[0]
        gs = c.ref.gene_seq(gene)
        if i in skip_set:
            s, e = tx.introns()[0]
            g = rng.randint(s + 2, e - 3)
            recs.append(gvfgen.Small(gene, tx, g, gs[g], rng.choice([b for b in 'ACGT' if b != gs[g]])))
        else:
            vs = gvfgen.make_small_variants(rng, c.ref, tx, rng.randint(1, 3), cluster=False, mnv_p=0)
            recs.extend(vs)
            if rng.random() < 0.2:      # an extra intronic record next to real ones
                s, e = tx.introns()[0]
                g = rng.randint(s + 2, e - 3)
                recs.append(gvfgen.Small(gene, tx, g, gs[g], rng.choice([b for b in 'ACGT' if b != gs[g]])))
    c.files = [('all.gvf', 'gSNP', recs)]
    return c


def cli_args(wd, gvfs, out, threads=1, index_dir=None, extra=()):
    a = ['callVariant', '-i'] + [str(g) for g in gvfs] + ['-o', str(out), '--threads', str(threads),
                                                          '--max-variants-per-node', '-1', '--additional-variants-per-misc', '-1',
                                                          '--cleavage-exception', 'None', '-q']
    if index_dir:
        a += ['--index-dir', str(index_dir)]
    else:
        a += ['-g', f'{wd}/genome.fasta', '-a', f'{wd}/annotation.gtf', '-p', f'{wd}/proteome.fasta']
    return a + list(extra)


def seqs_of(path):
    return {s for _, s in drivers.read_fasta(path)} if os.path.exists(path) else None


def hash_case(spec):
    """Python hash seed on richer inputs: a case of the callVariant engine (fusions with adjacent variants at the breakpoint,
    several units per transcript, circRNA, alternative splicing ...) is run in-process (PYTHONHASHSEED=0) and through the CLI
    under other hash seeds; the peptide SETS must be equal."""
    rng = random.Random(spec['seed'])
    case = cv.build_case({'seed': spec['seed'], 'stratum': spec['stratum'], 'light': spec.get('light', True),
                          'cfg': {'exception': None, 'min_nodes_to_collapse': 30, 'naa_to_collapse': 5}})
    if case is None:
        return {'skipped': True}
    wd = drivers.case_dir('c06h-')
    viol = []
    counters = {'cases': 1, 'hash_cases': 1}
    try:
        paths = cv.write_case(case, wd)
        try:
            fa, _ = cvmon.execute(case, wd, paths, out='base.fasta')
        except Exception:
            return {'nontrivial': False, 'counters': {'cases': 1, 'base_run_crashed': 1}}
        base = {s for _, s in fa}
        for hs in spec['hashseeds']:
            out = f'{wd}/h{hs}.fasta'
            rc, so, se = common.run_cli(cli_args(wd, paths, out), timeout=600, hashseed=None if hs == 'random' else hs)
            if rc is None:
                continue
            counters['hashseed_runs'] = counters.get('hashseed_runs', 0) + 1
            got = seqs_of(out)
            if rc != 0 or got is None:
                if 'Failed to finish transcript' in se or 'Downstream node becomes empty' in se:
                    continue       # wall-clock limit / recorded crash mechanism: decided by C01
                viol.append({'kind': 'hashseed-run-failed', 'msg': f'{spec["stratum"]} PYTHONHASHSEED={hs}: exit {rc}: {se[-300:]}'})
            elif got != base:
                viol.append({'kind': 'hashseed-changes-output', 'mech': 'KF-CTX' if cvmon.ctx_attributable(case, base ^ got) else None,
                             'msg': f'{spec["stratum"]} PYTHONHASHSEED={hs}: {len(got)} peptides vs {len(base)} with seed 0; '
                                    f'missing {sorted(base - got)[:4]} extra {sorted(got - base)[:4]}'})
        # ---------------- file layout / order on the rich input (in-process): every record in a file of its own (per family,
        # shuffled order), or the original files cut in two with the halves in reversed order; records of one transcript then
        # reach callVariant through different file pointers
        from moPepGen.cli.index_gvf import index_gvf
        for k in range(spec.get('layouts', 2)):
            mode = ['one-record-per-file', 'halves-reversed'][k % 2]
            ldir = f'{wd}/rlayout{k}'
            os.makedirs(ldir)
            parts = []
            for name, source, recs in case.files:
                fams = {}
                for r in recs:
                    fams.setdefault(r.family, []).append(r)
                for fam, rs in fams.items():
                    if mode == 'one-record-per-file':
                        chunks = [[r] for r in rs]
                    else:
                        h = max(1, len(rs) // 2)
                        chunks = [c for c in (rs[h:], rs[:h]) if c]
                    for ch in chunks:
                        parts.append((source, fam, ch))
            if mode == 'one-record-per-file':
                rng.shuffle(parts)
            lpaths = []
            for i, (source, fam, ch) in enumerate(parts):
                p = f'{ldir}/part{i}.gvf'
                gvfgen.write_gvf(p, ch, source, fam)
                lpaths.append(p)
                if rng.random() < 0.3:
                    with drivers.quiet():
                        index_gvf(argparse.Namespace(input_path=Path(p), quiet=True, debug_level=1, command='indexGVF'))
            try:
                fa2, _ = cvmon.execute(case, wd, lpaths, out=f'rlayout{k}.fasta')
            except Exception as e:
                if 'Failed to finish transcript' in str(e):
                    continue
                viol.append({'kind': 'layout-run-failed', 'msg': f'{spec["stratum"]} layout {mode} ({len(lpaths)} files): {type(e).__name__}: {str(e)[:200]}'})
                continue
            counters['rich_layout_runs'] = counters.get('rich_layout_runs', 0) + 1
            got = {s for _, s in fa2}
            if got != base:
                # nested-AS inputs: where the peptide is truncated inside the inserted segment (KF-NESTED) depends on iteration order
                nested = any(e.tag == 'nested-donor' for bb in cv.build_backbones(case) for e in bb.edits)
                viol.append({'kind': 'layout-changes-output',
                             'mech': 'KF-NESTED' if nested else ('KF-CTX' if cvmon.ctx_attributable(case, base ^ got) else None),
                             'msg': f'{spec["stratum"]} layout {mode} with {len(lpaths)} files: missing {sorted(base - got)[:4]} extra {sorted(got - base)[:4]}'})
        # ---------------- reference as index directory built with the case's OWN cleavage settings (any rule / limits)
        if spec.get('index_ref'):
            cfg = case.cfg
            try:
                idx = drivers.generate_index(wd, f'{wd}/index', rule=cfg['rule'], exception=cfg['exception'], miscleavage=cfg['miscleavage'],
                                             min_mw=cfg['min_mw'], min_length=cfg['min_length'], max_length=cfg['max_length'])
                a = cv.cv_namespace(case, wd, paths, out='idx.fasta')
                a.index_dir = Path(idx)
                a.genome_fasta = a.annotation_gtf = a.proteome_fasta = None
                fa3 = drivers.call_variant(a)
            except Exception as e:
                if 'Failed to finish transcript' not in str(e):
                    viol.append({'kind': 'index-reference-run-failed', 'msg': f'{spec["stratum"]} {cfg}: {type(e).__name__}: {str(e)[:200]}'})
                fa3 = None
            if fa3 is not None:
                counters['rich_index_ref_runs'] = 1
                got = {s for _, s in fa3}
                if got != base:
                    viol.append({'kind': 'index-reference-changes-output',
                                 'mech': 'KF-CTX' if cvmon.ctx_attributable(case, base ^ got) else None,
                                 'msg': f'{spec["stratum"]} rule={cfg["rule"]} limits=({cfg["miscleavage"]},{cfg["min_mw"]},{cfg["min_length"]},'
                                        f'{cfg["max_length"]}): raw files vs index directory: missing {sorted(base - got)[:4]} extra {sorted(got - base)[:4]}'})
        return {'nontrivial': bool(base), 'feature': ('hash', spec['stratum'], tuple(spec['hashseeds'])), 'violations': viol,
                'counters': counters, 'sample': {'stratum': spec['stratum'], 'hashseeds': spec['hashseeds'], 'base_peptides': len(base)}}
    finally:
        drivers.rm(wd)


def run_case(spec):
    if spec.get('kind') == 'hash':
        return hash_case(spec)
    from moPepGen.cli.index_gvf import index_gvf
    rng = random.Random(spec['seed'])
    n_tx = spec['n_tx']
    skip = set(spec['skip'])
    case = make_case(rng, n_tx, skip, n_chroms=rng.randint(1, 2))
    wd = drivers.case_dir('c06-')
    viol = []
    counters = {'cases': 1}
    try:
        paths = cv.write_case(case, wd)
        if spec.get('index_ref') and rng.random() < 0.5:
            # a proteome entry with an internal stop symbol (the index must treat its transcript exactly like the raw files do)
            recs_ = drivers.read_fasta(f'{wd}/proteome.fasta')
            cand = [i for i, (h_, s_) in enumerate(recs_) if len(s_) > 8]
            if cand:
                i_ = rng.choice(cand)
                h_, s_ = recs_[i_]
                k_ = rng.randint(3, len(s_) - 3)
                recs_[i_] = (h_, s_[:k_] + '*' + s_[k_ + 1:])
                with open(f'{wd}/proteome.fasta', 'w') as fh:
                    for h_, s_ in recs_:
                        fh.write(f'>{h_}\n{s_}\n')
                counters['proteome_with_internal_stop'] = 1
        try:
            fa, _ = cvmon.execute(case, wd, paths, out='base.fasta')
        except Exception:
            # the base run itself crashes on this input: nothing to compare (crashes on valid input are decided by C01)
            return {'nontrivial': False, 'counters': {'cases': 1, 'base_run_crashed': 1}}
        base = {s for _, s in fa}
        counters['base_peptides'] = len(base)
        recs = case.recs()
        # ---------------- threads (CLI, ppft workers)
        for t in spec.get('threads', []):
            out = f'{wd}/t{t}.fasta'
            rc, so, se = common.run_cli(cli_args(wd, paths, out, threads=t), timeout=600)
            counters['thread_runs'] = counters.get('thread_runs', 0) + 1
            got = seqs_of(out)
            if rc is None:
                return {'error': None, 'skipped': True, 'counters': {'watchdog': 1}}
            if rc != 0 or got is None:
                viol.append({'kind': 'threads-run-failed', 'msg': f'--threads {t}: exit {rc}: {se[-400:]}'})
            elif got != base:
                viol.append({'kind': 'threads-change-output', 'mech': 'KF-CTX' if cvmon.ctx_attributable(case, base ^ got) else None,
                             'msg': f'--threads {t} (n_tx={n_tx}, skipped={sorted(skip)}): {len(got)} peptides vs {len(base)} with --threads 1; '
                                    f'missing {sorted(base - got)[:4]} extra {sorted(got - base)[:4]}'})
        # ---------------- hash seeds (CLI, threads 1)
        for hs in spec.get('hashseeds', []):
            out = f'{wd}/h{hs}.fasta'
            rc, so, se = common.run_cli(cli_args(wd, paths, out), timeout=600, hashseed=None if hs == 'random' else hs)
            counters['hashseed_runs'] = counters.get('hashseed_runs', 0) + 1
            got = seqs_of(out)
            if rc != 0 or got is None:
                viol.append({'kind': 'hashseed-run-failed', 'msg': f'PYTHONHASHSEED={hs}: exit {rc}: {se[-300:]}'})
            elif got != base:
                viol.append({'kind': 'hashseed-changes-output', 'mech': 'KF-CTX' if cvmon.ctx_attributable(case, base ^ got) else None, 'msg': f'PYTHONHASHSEED={hs}: missing {sorted(base - got)[:4]} extra {sorted(got - base)[:4]}'})
        # ---------------- file layout / order / .idx (in-process)
        for k in range(spec.get('layouts', 0)):
            rs = list(recs)
            mode = rng.choice(['interleave', 'by-tx', 'shuffle', 'dup'])
            nf = rng.randint(2, 4)
            if mode == 'shuffle':
                rng.shuffle(rs)
            chunks = [rs[i::nf] for i in range(nf)] if mode != 'by-tx' else \
                [[r for r in rs if hash(r.tx.id) % nf == i] for i in range(nf)]
            if mode == 'dup' and rs:
                chunks[0] = chunks[0] + [rs[-1]]
                chunks[-1] = chunks[-1] + [rs[0]]
            chunks = [c for c in chunks if c]
            rng.shuffle(chunks)
            lpaths = []
            ldir = f'{wd}/layout{k}'
            os.makedirs(ldir)
            for i, ch in enumerate(chunks):
                p = f'{ldir}/part{i}.gvf'
                gvfgen.write_gvf(p, ch, f'src{i}', 'small')
                lpaths.append(p)
                if rng.random() < 0.5:
                    with drivers.quiet():
                        index_gvf(argparse.Namespace(input_path=Path(p), quiet=True, debug_level=1, command='indexGVF'))
                    counters['idx_files'] = counters.get('idx_files', 0) + 1
            fa2, _ = cvmon.execute(case, wd, lpaths, out=f'layout{k}.fasta')
            counters['layout_runs'] = counters.get('layout_runs', 0) + 1
            got = {s for _, s in fa2}
            if got != base:
                viol.append({'kind': 'layout-changes-output', 'mech': 'KF-CTX' if cvmon.ctx_attributable(case, base ^ got) else None,
                             'msg': f'layout {mode} with {len(chunks)} files: missing {sorted(base - got)[:4]} extra {sorted(got - base)[:4]}'})
        # ---------------- reference as index directory
        if spec.get('index_ref'):
            idx = drivers.generate_index(wd, f'{wd}/index', exception=None)
            a = cv.cv_namespace(case, wd, paths, out='idx.fasta')
            a.index_dir = Path(idx)
            a.genome_fasta = a.annotation_gtf = a.proteome_fasta = None
            fa3 = drivers.call_variant(a)
            counters['index_ref_runs'] = 1
            got = {s for _, s in fa3}
            if got != base:
                viol.append({'kind': 'index-reference-changes-output', 'mech': 'KF-CTX' if cvmon.ctx_attributable(case, base ^ got) else None, 'msg': f'missing {sorted(base - got)[:4]} extra {sorted(got - base)[:4]}'})
        feat = (n_tx, len(skip), tuple(spec.get('threads', [])), (n_tx - 1) in skip, 0 in skip, bool(spec.get('layouts')),
                bool(spec.get('index_ref')), tuple(spec.get('hashseeds', [])))
        return {'nontrivial': bool(base), 'feature': feat, 'violations': viol, 'counters': counters,
                'sample': {'n_tx': n_tx, 'skipped_positions': sorted(skip), 'threads': spec.get('threads'), 'base_peptides': len(base),
                           'records': len(recs)}}
    finally:
        drivers.rm(wd)


def check(rep, tier, seed, specs=None, n_override=None):
    quick = tier == 'quick'
    if specs is None:
        specs = []
        rng = random.Random(common.hash64('c06-plan', seed))
        if quick:
            # batch shapes that matter: the last / first / middle transcript skipped, partial final batch
            shapes = [(3, [0], [3]), (3, [2], [2, 3]), (4, [3], [3, 4]), (4, [1, 3], [2]), (5, [4], [2, 4]), (5, [0, 4], [3]),
                      (6, [2], [4, 5]), (6, [5], [4, 8]), (7, [6, 3], [2, 5]), (2, [1], [2]), (4, [], [3]), (5, [1, 2], [8]),
                      (9, [8], [4]), (8, [0, 7], [3, 5]), (3, [1], [2, 3]), (6, [4, 5], [4])]
            for i, (n, sk, th) in enumerate(shapes[:n_override] if n_override else shapes):
                specs.append({'n_tx': n, 'skip': sk, 'threads': th, 'seed': common.hash64('c06', 'fixed', i)})
            for i in range(4 if not n_override else 0):
                n = rng.randint(2, 9)
                sk = rng.sample(range(n), rng.randint(0, min(3, n - 1)))
                specs.append({'n_tx': n, 'skip': sk, 'threads': [rng.choice([2, 3, 4, 5, 8])], 'seed': common.hash64('c06', seed, i)})
            for i in range(60 if not n_override else 4):
                n = rng.randint(2, 7)
                specs.append({'n_tx': n, 'skip': rng.sample(range(n), rng.randint(0, 2)), 'layouts': 3, 'index_ref': i % 3 == 0,
                              'hashseeds': [[1], [2], ['random']][i % 3] if i % 4 == 0 else [],
                              'seed': common.hash64('c06-l', 'fixed' if i < 30 else seed, i)})
        else:
            i = 0
            for n in range(2, 10):
                for ns in range(0, min(n, 4)):
                    import itertools
                    combos = list(itertools.combinations(range(n), ns))
                    rng.shuffle(combos)
                    for sk in combos[:12]:
                        for th in ([2, 3], [4, 5], [8]):
                            specs.append({'n_tx': n, 'skip': list(sk), 'threads': th, 'seed': common.hash64('c06t', i)})
                            i += 1
            for j in range(3000):
                n = rng.randint(2, 9)
                specs.append({'n_tx': n, 'skip': rng.sample(range(n), rng.randint(0, min(3, n - 1))), 'layouts': 4, 'index_ref': j % 2 == 0,
                              'hashseeds': [1, 2, 'random'] if j % 5 == 0 else [], 'seed': common.hash64('c06-l', seed, j)})
    if specs is not None and not any(sp.get('kind') == 'hash' for sp in specs) and not n_override and len(specs) > 1:
        hstrata = ['fusion_adj', 'fusion_adj', 'units', 'fusion_var', 'circ_var', 'as', 'multi', 'small']
        nh = 64 if quick else 1600
        for i in range(nh):
            specs.append({'kind': 'hash', 'stratum': hstrata[i % len(hstrata)],
                          'hashseeds': [[1, 2], [3, 'random'], [4, 5], [7, 9]][i % 4],
                          'seed': common.hash64('c06h', 'fixed' if i < nh // 2 else seed, i)})
        # layout-only cases on the rich strata (no CLI runs): several units per transcript, fusions sharing a donor breakpoint, AS
        # records with nested variants, circRNA
        lstrata = ['units', 'units', 'fusion_var', 'as_nested', 'circ_var', 'units', 'multi', 'fusion_adj']
        nl = 96 if quick else 4000
        for i in range(nl):
            specs.append({'kind': 'hash', 'stratum': lstrata[i % len(lstrata)], 'hashseeds': [], 'layouts': 2,
                          'seed': common.hash64('c06r', 'fixed' if i < nl // 2 else seed, i)})
        # raw reference vs index directory on inputs with free cleavage settings (all rules, limits up to --max-length 40, alt-translation
        # flags); the paralog class makes variant peptides EQUAL canonical peptides of another gene, so the canonical pools of the two
        # reference forms have to agree exactly
        istrata = ['paralog', 'paralog', 'sec', 'multi', 'paralog', 'small', 'fusion_var', 'circ_var']
        ni = 64 if quick else 3000
        for i in range(ni):
            specs.append({'kind': 'hash', 'stratum': istrata[i % len(istrata)], 'hashseeds': [], 'layouts': 0, 'light': False,
                          'index_ref': True, 'seed': common.hash64('c06i', 'fixed' if i < ni // 2 else seed, i)})
    results, lost = common.shard_run('c06', specs, timeout_s=1800 if quick else 8 * 3600)
    rep.rule = ('inputs with 2-9 transcripts in annotation order of which a chosen subset is skipped by the dispatcher (only an intronic record) at '
                'first / middle / last position; base = --threads 1, one file, raw reference, PYTHONHASHSEED=0 (in-process). Compared against it: '
                'CLI runs with --threads 2/3/4/5/8 (ppft worker processes), CLI runs with PYTHONHASHSEED 1/2/random, 2-4 GVF files in interleaved / '
                'per-transcript / shuffled order with duplicated records and with or without indexGVF .idx files, and the reference given as a '
                'generateIndex directory. Hash seeds and file layouts (one record per file in shuffled order, halves of every file in reversed order) are additionally varied on cases of the callVariant engine (fusions with adjacent variants at '
                'the breakpoint, several units per transcript, circRNA, alternative splicing). non-trivial = base output non-empty; distinct = (n_tx, n_skipped, thread counts, last/first skipped, ...).')
    rep.absorb(results, lost)
    for k in ('thread_runs', 'layout_runs', 'index_ref_runs', 'hashseed_runs', 'rich_layout_runs', 'rich_index_ref_runs'):
        if not rep.counters.get(k):
            rep.inconclusive.append(f'monitor {k} had zero evaluations')
