"""Exploration helper (not a registered check): run cv cases with all judgments."""
from harness.monitors import cvmon


def run_case(spec):
    return cvmon.judge_case(spec, do_collapse_pair=spec.get('pair', False), do_headers=True, do_table=True)
