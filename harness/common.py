"""Shared runner / evidence / verdict machinery of the verification harness.

Nothing here imports moPepGen. Worker subprocesses (harness.worker) import the repository from
its *current working tree* through PYTHONPATH=<verif>/harness/site:<repo>.
"""
from __future__ import annotations
import hashlib
import json
import os
import shutil
import subprocess
import sys
import tempfile
import time
from pathlib import Path

ROOT = Path(__file__).resolve().parent.parent
REPO = Path(os.environ.get('MOPEPGEN_REPO', '/repo'))
SITE = ROOT / 'harness' / 'site'
PY = os.environ.get('MOPEPGEN_PY', '/venv/bin/python')
NPROC = int(os.environ.get('VERIF_NPROC', '16'))
GUARD = 'MOPEPGEN_VERIF'
REACH = {}        # function of the repository -> number of entries observed by the workers of this run (sys.monitoring)
DEFAULT_CLASS_CEILING = 0.05     # known-finding cases per case of a workload class without a recorded ceiling


def hash64(*parts) -> int:
    h = hashlib.sha256('\x1f'.join(str(p) for p in parts).encode()).digest()
    return int.from_bytes(h[:8], 'big') >> 1


def verif_seed() -> int:
    try:
        return int(os.environ.get('VERIF_SEED', '0'))
    except ValueError:
        return 0


def tmp_root() -> Path:
    p = Path(os.environ.get('VERIF_TMP') or f'/tmp/verif-{os.getpid()}')
    p.mkdir(parents=True, exist_ok=True)
    os.environ['VERIF_TMP'] = str(p)
    return p


def child_env(extra: dict | None = None, hashseed: str | None = '0', guard: bool = False) -> dict:
    env = dict(os.environ)
    deps = ROOT / '.deps'
    pp = [str(SITE), str(REPO), str(ROOT)]
    if deps.is_dir():
        pp.append(str(deps))
    env['PYTHONPATH'] = os.pathsep.join(pp)
    env['PYTHONWARNINGS'] = 'ignore'
    env['PYTHONDONTWRITEBYTECODE'] = '1'
    if hashseed is None:
        env.pop('PYTHONHASHSEED', None)
    else:
        env['PYTHONHASHSEED'] = str(hashseed)
    for k in list(env):
        if k.startswith('MOPEPGEN_VERIF'):
            del env[k]
    if guard:
        env[GUARD] = '1'
    if extra:
        env.update({k: str(v) for k, v in extra.items()})
    return env


def run_cli(argv: list, timeout: float = 600, extra_env: dict | None = None, hashseed='0',
            guard: bool = False, cwd=None):
    """Run `python -m moPepGen.cli <argv>` as a subprocess against the working tree.
    Returns (returncode or None on watchdog, stdout, stderr)."""
    cmd = [PY, '-m', 'moPepGen.cli'] + [str(a) for a in argv]
    try:
        r = subprocess.run(cmd, env=child_env(extra_env, hashseed, guard), capture_output=True,
                           text=True, timeout=timeout, cwd=cwd)
        return r.returncode, r.stdout, r.stderr
    except subprocess.TimeoutExpired as e:
        return None, (e.stdout or b'').decode(errors='replace') if isinstance(e.stdout, bytes) else (e.stdout or ''), 'WATCHDOG'


def shard_run(module: str, specs: list, nproc: int | None = None, timeout_s: float = 3600,
              hashseed: str | None = '0') -> tuple[list, list]:
    """Run specs through harness.worker in nproc subprocesses. Returns (results, lost_specs).
    Results keep the order of specs where available."""
    nproc = min(nproc or NPROC, max(1, len(specs)))
    root = tmp_root()
    wd = Path(tempfile.mkdtemp(prefix='shards-', dir=root))
    procs = []
    for i in range(nproc):
        chunk = [(j, s) for j, s in enumerate(specs) if j % nproc == i]
        inp = wd / f'in{i}.json'
        out = wd / f'out{i}.jsonl'
        inp.write_text(json.dumps(chunk))
        log = open(wd / f'log{i}.txt', 'w')
        p = subprocess.Popen([PY, '-m', 'harness.worker', module, str(inp), str(out)],
                             env=child_env(hashseed=hashseed), stdout=log, stderr=subprocess.STDOUT,
                             cwd=str(ROOT))
        procs.append((p, out, log, chunk, wd / f'log{i}.txt'))
    deadline = time.time() + timeout_s
    results = {}
    worker_errors = []
    for p, out, log, chunk, logpath in procs:
        try:
            p.wait(timeout=max(1, deadline - time.time()))
        except subprocess.TimeoutExpired:
            p.kill()
            p.wait()
            worker_errors.append(f'watchdog killed worker ({logpath})')
        log.close()
        if out.exists():
            for line in out.read_text().splitlines():
                try:
                    j, r = json.loads(line)
                except ValueError:
                    continue
                if j == -1:
                    for k_, v_ in (r.get('reach') or {}).items():
                        REACH[k_] = REACH.get(k_, 0) + v_
                    continue
                results[j] = r
        if p.returncode not in (0, None) and p.returncode != -9:
            tail = logpath.read_text()[-2000:]
            worker_errors.append(f'worker exit {p.returncode}: {tail}')
    lost = [s for j, s in enumerate(specs) if j not in results]
    ordered = [results[j] for j in sorted(results)]
    if not lost and not worker_errors:
        shutil.rmtree(wd, ignore_errors=True)
    else:
        for e in worker_errors[:3]:
            print('WORKER-ERROR', e[:3000], file=sys.stderr)
    return ordered, lost


# ------------------------------------------------------------------------------------------
# Known findings

def load_known_findings(prop: str) -> dict:
    f = ROOT / 'known_findings.json'
    if not f.exists():
        return {}
    data = json.loads(f.read_text())
    return {e['id']: e for e in data.get('findings', [])
            if (e.get('property') == prop or prop in e.get('properties', [])) and e.get('status', 'open') == 'open'}


# ------------------------------------------------------------------------------------------
# Report

class Report:
    """Collects what a run observed and turns it into evidence + verdict."""

    def __init__(self, prop: str, tier: str, seed: int, level: str = 'exploration'):
        self.prop, self.tier, self.seed, self.level = prop, tier, seed, level
        self.t0 = time.time()
        self.evaluations = 0
        self.features = set()
        self.samples = []
        self.violations = []      # dicts: kind, msg, spec, mech(optional)
        self.known_seen = {}      # id -> count
        self.counters = {}
        self.reached = {}
        self.inconclusive = []
        self.rule = ''
        self.assumptions = []
        self.extra = {}
        self.exhaustive = None
        self.known = load_known_findings(prop)
        self.min_nontrivial = 2
        self.write_evidence = True     # False for --replay runs (one case is not the tier's evidence)
        self.class_cases = {}          # workload class (stratum) -> cases judged
        self.kf_class = {}             # (finding id, class) -> cases with >= 1 attributed instance
        self._kf_seen = set()

    def count(self, key, n=1):
        self.counters[key] = self.counters.get(key, 0) + n

    def add_case(self, nontrivial: bool, feature=None, sample=None):
        self.evaluations += 1
        if nontrivial:
            self.features.add(json.dumps(feature, sort_keys=True, default=str))
        if sample is not None and len(self.samples) < 6:
            self.samples.append(sample)

    def add_class_case(self, cls):
        self.class_cases[cls] = self.class_cases.get(cls, 0) + 1

    def add_violation(self, kind: str, msg: str, spec=None, mech: str | None = None, detail=None):
        if mech and mech in self.known:
            self.known_seen[mech] = self.known_seen.get(mech, 0) + 1
            cls = (spec or {}).get('stratum') if isinstance(spec, dict) else None
            if cls:        # counted once per case: the number of peptides one case contributes is heavy-tailed
                key = (mech, cls, json.dumps(spec, sort_keys=True, default=str))
                if key not in self._kf_seen:
                    self._kf_seen.add(key)
                    self.kf_class[(mech, cls)] = self.kf_class.get((mech, cls), 0) + 1
            self.known_seen.setdefault('_ex_' + mech, {'msg': msg[:400], 'spec': spec})
            return
        self.violations.append({'kind': kind, 'msg': msg, 'spec': spec, 'mech': mech, 'detail': detail})

    def absorb(self, results: list, lost: list):
        """Default aggregation of worker results (dicts produced by monitors' run_case)."""
        for r in results:
            if r.get('error'):
                self.add_violation('harness-or-tool-exception', r['error'][-1500:], r.get('spec'),
                                   r.get('mech'))
                self.evaluations += 1
                continue
            n = r.get('n', 1)
            self.evaluations += n - 1 if n > 1 else 0
            if isinstance(r.get('spec'), dict) and r['spec'].get('stratum'):
                self.add_class_case(r['spec']['stratum'])
            feats = r.get('features')
            if feats is not None:
                for f in feats:
                    self.features.add(json.dumps(f, sort_keys=True, default=str))
                self.add_case(False, None, r.get('sample'))
            else:
                self.add_case(bool(r.get('nontrivial')), r.get('feature'), r.get('sample'))
            for k, v in (r.get('counters') or {}).items():
                self.count(k, v)
            for k, v in (r.get('reached') or {}).items():
                self.reached[k] = self.reached.get(k, 0) + v
            for v in r.get('violations') or []:
                self.add_violation(v.get('kind', 'violation'), v.get('msg', ''), r.get('spec'),
                                   v.get('mech'), v.get('detail'))
        if lost:
            self.inconclusive.append(f'{len(lost)} cases lost (worker died or watchdog fired)')

    # -- finishing
    def finish(self) -> int:
        wall = time.time() - self.t0
        # drift control for known findings
        for fid, f in self.known.items():
            n = self.known_seen.get(fid, 0)
            ceil = f.get('max_instances', {}).get(self.tier)
            if ceil is not None and n > ceil:
                self.violations.append({'kind': 'known-finding-drift', 'mech': fid, 'spec': None,
                                        'msg': f'{n} instances of known finding {fid} exceed the recorded '
                                               f'ceiling {ceil} for tier {self.tier}', 'detail': None})
        # rate ceilings per workload class: a known finding must not explain (many) more instances per case than it does on the
        # unchanged tree - a defect that hides behind a recorded mechanism shows up as a rate jump (coarse tripwire, DESIGN 5.3)
        rates = {}
        for (fid, cls), n in sorted(self.kf_class.items()):
            cases = self.class_cases.get(cls, 0)
            if cases:
                rates[f'{fid}/{cls}'] = [n, cases, round(n / cases, 4)]
            rcs = [rc for rc in (self.known.get(fid, {}).get('rate_ceilings') or [])
                   if rc.get('property') in (None, self.prop) and rc.get('class') == cls]
            if not rcs:
                rcs = [{'max_per_case': DEFAULT_CLASS_CEILING, 'min_cases': 100, 'measured': '< 0.02 on the unchanged tree'}]
            for rc in rcs:
                if cases >= rc.get('min_cases', 50) and n / cases > rc['max_per_case']:
                    self.violations.append({'kind': 'known-finding-drift', 'mech': fid, 'spec': None, 'detail': None,
                                            'msg': f'{n} cases with instances of known finding {fid} among {cases} cases of class {cls} '
                                                   f'({n / cases:.3f} per case) exceed the recorded ceiling {rc["max_per_case"]} per case '
                                                   f'(unchanged tree: {rc.get("measured", "?")})'})
        distinct = len(self.features)
        if not self.violations and distinct < self.min_nontrivial:
            self.inconclusive.append(f'only {distinct} distinct non-trivial cases (< {self.min_nontrivial})')
        # reach counters of the property's anchor files (what the workload actually entered, and how often)
        try:
            anchors = []
            for line in open(ROOT / 'properties.jsonl'):
                pj = json.loads(line)
                if pj.get('id') == self.prop:
                    anchors = pj.get('anchors', {}).get('files', [])
            for k_, v_ in REACH.items():
                if any(k_.startswith(a + ':') for a in anchors):
                    self.reached[k_] = self.reached.get(k_, 0) + v_
            self.extra['reached_functions_in_anchor_files'] = len(self.reached)
            self.extra['reached_functions_total'] = len(REACH)
            self.extra['reached_note'] = 'entries counted by sys.monitoring (PY_START) during the first 40 cases of each worker process'
        except Exception:
            pass
        cov = {
            'evaluations': int(self.evaluations),
            'distinct_nontrivial': int(distinct),
            'rule': self.rule,
            'samples': self.samples or ['(no sample recorded)'],
            'counters': self.counters,
            'reached': self.reached,
            'known_findings_seen': {k: v for k, v in self.known_seen.items() if not k.startswith('_ex_')},
            'inconclusive': self.inconclusive,
            'known_finding_rates': rates,
        }
        if self.exhaustive is not None:
            cov['exhaustive'] = bool(self.exhaustive)
        cov.update(self.extra)
        ev = {
            'property_id': self.prop, 'tier': self.tier, 'seed': int(self.seed), 'level': self.level,
            'coverage': cov,
            'assumptions': self.assumptions + [
                'Biopython 1.88 compatibility shim harness/site/sitecustomize.py (patches Biopython, not moPepGen)',
                'verdict is about the executions observed in this run only'],
            'wall_s': round(wall, 2), 'violations': len(self.violations),
        }
        # VERIF_OUT redirects evidence / replays (used when a check is pointed at a scratch tree with a seeded change)
        outroot = Path(os.environ.get('VERIF_OUT') or ROOT)
        evdir = outroot / 'evidence'
        evdir.mkdir(parents=True, exist_ok=True)
        if self.write_evidence:
            (evdir / f'{self.prop}.json').write_text(json.dumps(ev, indent=1, default=str) + '\n')
        # one line per OPEN finding recorded for this property (also when this run met no instance of it)
        for fid, f in self.known.items():
            n = self.known_seen.get(fid, 0)
            print(f"KNOWN-FINDING: property={self.prop} {fid}: {f.get('mechanism', '')} (n={n} this run)")
        if self.violations:
            rdir = outroot / 'replays' / self.prop
            rdir.mkdir(parents=True, exist_ok=True)
            seen = set()
            for i, v in enumerate(self.violations[:25]):
                key = hash64(json.dumps(v.get('spec'), sort_keys=True, default=str), v['kind'])
                path = rdir / f'{v["kind"]}-{key:016x}.json'
                path.write_text(json.dumps({'property': self.prop, 'spec': v.get('spec'), 'kind': v['kind'],
                                            'mech': v.get('mech'), 'msg': v['msg'], 'detail': v.get('detail')},
                                           indent=1, default=str))
                if path in seen:
                    continue
                seen.add(path)
                print(f'VIOLATION property={self.prop} replay={path}')
                print('  ' + v['kind'] + ': ' + v['msg'][:600].replace('\n', '\n  '))
            if len(self.violations) > 25:
                print(f'  ... and {len(self.violations) - 25} more violations')
            print(f'{self.prop} {self.tier}: VIOLATED ({len(self.violations)} violations, '
                  f'{self.evaluations} evaluations, {wall:.1f}s)')
            return 1
        if self.inconclusive:
            print(f"INCONCLUSIVE property={self.prop} reason={'; '.join(self.inconclusive)}")
            return 3
        print(f'{self.prop} {self.tier}: held on {self.evaluations} evaluations, {distinct} distinct non-trivial, '
              f'{wall:.1f}s; counters={json.dumps(self.counters, sort_keys=True)[:600]}')
        return 0
