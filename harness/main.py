"""Entry point: ./check <ID> --tier quick|thorough [--replay FILE]"""
import argparse
import importlib
import json
import os
import shutil
import sys

from harness import common


def main():
    ap = argparse.ArgumentParser()
    ap.add_argument('check')
    ap.add_argument('--tier', default=os.environ.get('VERIF_TIER', 'quick'), choices=['quick', 'thorough'])
    ap.add_argument('--replay', default=None)
    ap.add_argument('--n', type=int, default=None, help='override number of random cases (debugging)')
    a = ap.parse_args()
    prop = a.check.upper()
    mod = importlib.import_module('harness.monitors.' + prop.lower())
    seed = common.verif_seed()
    os.environ.setdefault('PYTHONHASHSEED', '0')
    root = common.tmp_root()
    try:
        rep = common.Report(prop, a.tier, seed, getattr(mod, 'LEVEL', 'exploration'))
        if a.replay:
            data = json.load(open(a.replay))
            specs = [data['spec']] if data.get('spec') is not None else []
            rep.write_evidence = False
            mod.check(rep, a.tier, seed, specs=specs)
            # a single replayed case cannot satisfy the tier's minimum-coverage conditions; only lost cases stay inconclusive
            rep.inconclusive = [x for x in rep.inconclusive if 'lost' in x]
            rep.min_nontrivial = 0
        else:
            mod.check(rep, a.tier, seed, n_override=a.n)
        rc = rep.finish()
    finally:
        shutil.rmtree(root, ignore_errors=True)
    sys.exit(rc)


if __name__ == '__main__':
    main()
