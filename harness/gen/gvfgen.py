"""G-VAR: GVF record generator and writer (own implementation of the documented GVF format;
independent of moPepGen.seqvar)."""
from __future__ import annotations

GVF_HEAD = """##fileformat=VCFv4.2
##mopepgen_version=1.4.6
##parser={parser}
##reference_index=
##genome_fasta=
##annotation_gtf=
##source={source}
##CHROM=<Description="Gene ID">
##INFO=<ID=TRANSCRIPT_ID,Number=1,Type=String,Description="Transcript ID">
##INFO=<ID=GENE_SYMBOL,Number=1,Type=String,Description="Gene Symbol">
##INFO=<ID=GENOMIC_POSITION,Number=1,Type=String,Description="Genomic Position">
#CHROM\tPOS\tID\tREF\tALT\tQUAL\tFILTER\tINFO
"""

PARSER_OF = {'small': 'parseVEP', 'res': 'parseREDItools', 'as': 'parseRMATS', 'fusion': 'parseSTARFusion',
             'circ': 'parseCIRCexplorer'}


class Rec:
    """One GVF line. Coordinates are 0-based gene coordinates in gene orientation; the writer
    converts to the 1-based text conventions."""
    family = 'small'

    def __init__(self, gene, tx):
        self.gene, self.tx = gene, tx
        self.id = None

    def base_info(self):
        return f'TRANSCRIPT_ID={self.tx.id};GENE_SYMBOL={self.gene.name};GENOMIC_POSITION={self.gene.chrom}:1-2'


class Small(Rec):
    """SNV / INDEL (VCF-style anchor base) / MNV substitution."""
    family = 'small'

    def __init__(self, gene, tx, gstart, ref, alt, prefix=None):
        super().__init__(gene, tx)
        self.gstart, self.ref, self.alt = gstart, ref, alt
        self.gend = gstart + len(ref)
        if len(ref) == 1 and len(alt) == 1:
            self.kind = 'SNV'
        elif len(ref) == 1 or len(alt) == 1:
            self.kind = 'INDEL'
        else:
            self.kind = 'MNV'
        self.id = f'{prefix or self.kind}-{gstart + 1}-{ref}-{alt}'

    def line(self):
        return '\t'.join([self.gene.id, str(self.gstart + 1), self.id, self.ref, self.alt, '.', '.',
                          self.base_info()])


class ASDel(Rec):
    """<DEL>: gene interval [gs, ge) is removed from the transcript."""
    family = 'as'
    kind = 'Deletion'

    def __init__(self, gene, tx, gs, ge, ref_base, tag='SE'):
        super().__init__(gene, tx)
        self.gs, self.ge, self.ref_base = gs, ge, ref_base
        self.id = f'{tag}_{gs + 1}-{ge}'

    def line(self):
        return '\t'.join([self.gene.id, str(self.gs + 1), self.id, self.ref_base, '<DEL>', '.', '.',
                          f'{self.base_info()};START={self.gs + 1};END={self.ge}'])


class ASIns(Rec):
    """<INS>: after the anchor base (gene coordinate) the donor gene interval [ds, de) is inserted."""
    family = 'as'
    kind = 'Insertion'

    def __init__(self, gene, tx, anchor, ds, de, ref_base, tag='RI', donor_gene=None):
        super().__init__(gene, tx)
        self.anchor, self.ds, self.de, self.ref_base = anchor, ds, de, ref_base
        self.donor_gene = donor_gene or gene
        self.id = f'{tag}_{anchor + 1}-{ds + 1}-{de}'

    def line(self):
        return '\t'.join([self.gene.id, str(self.anchor + 1), self.id, self.ref_base, '<INS>', '.', '.',
                          f'{self.base_info()};DONOR_START={self.ds + 1};DONOR_END={self.de};'
                          f'DONOR_GENE_ID={self.donor_gene.id}'])


class ASSub(Rec):
    """<SUB>: gene interval [gs, ge) of the transcript is replaced by donor gene interval [ds, de)."""
    family = 'as'
    kind = 'Substitution'

    def __init__(self, gene, tx, gs, ge, ds, de, ref_base, tag='MXE', donor_gene=None):
        super().__init__(gene, tx)
        self.gs, self.ge, self.ds, self.de, self.ref_base = gs, ge, ds, de, ref_base
        self.donor_gene = donor_gene or gene
        self.id = f'{tag}_{gs + 1}-{ge}-{ds + 1}-{de}'

    def line(self):
        return '\t'.join([self.gene.id, str(self.gs + 1), self.id, self.ref_base, '<SUB>', '.', '.',
                          f'{self.base_info()};START={self.gs + 1};END={self.ge};DONOR_START={self.ds + 1};'
                          f'DONOR_END={self.de};DONOR_GENE_ID={self.donor_gene.id};COORDINATE=gene'])


class Fusion(Rec):
    """<FUSION>: donor keeps gene positions < dpos (dpos = first excluded donor gene base);
    acceptor contributes from gene position apos (first included base)."""
    family = 'fusion'
    kind = 'Fusion'

    def __init__(self, gene, tx, dpos, acc_gene, acc_tx, apos, ref_base):
        super().__init__(gene, tx)
        self.dpos, self.acc_gene, self.acc_tx, self.apos, self.ref_base = dpos, acc_gene, acc_tx, apos, ref_base
        self.id = f'FUSION-{tx.id}:{dpos}-{acc_tx.id}:{apos}'

    def line(self):
        info = (f'TRANSCRIPT_ID={self.tx.id};GENE_SYMBOL={self.gene.name};GENOMIC_POSITION={self.gene.chrom}:1:1;'
                f'ACCEPTER_GENE_ID={self.acc_gene.id};ACCEPTER_TRANSCRIPT_ID={self.acc_tx.id};'
                f'ACCEPTER_SYMBOL={self.acc_gene.name};ACCEPTER_POSITION={self.apos + 1};'
                f'ACCEPTER_GENOMIC_POSITION={self.acc_gene.chrom}:1:1')
        return '\t'.join([self.gene.id, str(self.dpos + 1), self.id, self.ref_base, '<FUSION>', '.', '.', info])


class Circ(Rec):
    """circRNA: fragments = gene intervals [s, e) (sorted); introns = 1-based indices of fragments
    that are introns."""
    family = 'circ'
    kind = 'circRNA'

    def __init__(self, gene, tx, frags, introns=()):
        super().__init__(gene, tx)
        self.frags = sorted(frags)
        self.introns = list(introns)
        start = self.frags[0][0]
        pre = 'CI' if self.introns and len(self.frags) == 1 else 'CIRC'
        self.id = f'{pre}-{tx.id}-{start}:{self.frags[-1][1]}'

    def line(self):
        start = self.frags[0][0]
        info = (f"OFFSET={','.join(str(s - start) for s, e in self.frags)};"
                f"LENGTH={','.join(str(e - s) for s, e in self.frags)};"
                f"INTRON={','.join(str(i) for i in self.introns)};"
                f"TRANSCRIPT_ID={self.tx.id};GENE_SYMBOL={self.gene.name};GENOMIC_POSITION={self.gene.chrom}:1:2")
        return '\t'.join([self.gene.id, str(start), self.id, '.', '.', '.', '.', info])


def write_gvf(path, recs, source, family=None):
    family = family or (recs[0].family if recs else 'small')
    with open(path, 'w') as fh:
        fh.write(GVF_HEAD.format(parser=PARSER_OF[family], source=source))
        for r in recs:
            fh.write(r.line() + '\n')


# ----------------------------------------------------------------------------------------------
# generators

def rand_small(rng, ref, tx, g, max_indel=4, snv_p=0.6, mnv_p=0.0):
    """A random small variant at gene position g of tx's gene (None if it would run off the gene)."""
    v = _rand_small(rng, ref, tx, g, max_indel, snv_p, mnv_p)
    # a record must lie inside the transcript's genomic range (parsers reject events that run past it)
    if v is not None and not (tx.exons[0][0] <= v.gstart and v.gend <= tx.exons[-1][1]):
        return None
    return v


def _rand_small(rng, ref, tx, g, max_indel=4, snv_p=0.6, mnv_p=0.0):
    gene = tx.gene
    gs = ref.gene_seq(gene)
    if not 0 <= g < len(gs):
        return None
    r = rng.random()
    if r < snv_p:
        refb = gs[g]
        alt = rng.choice([b for b in 'ACGT' if b != refb])
        return Small(gene, tx, g, refb, alt)
    if r < snv_p + mnv_p:
        k = rng.randint(2, 3)
        if g + k > len(gs):
            return None
        refs = gs[g:g + k]
        alt = ''.join(rng.choice('ACGT') for _ in range(rng.randint(2, 3)))
        if alt == refs:
            return None
        return Small(gene, tx, g, refs, alt)
    if rng.random() < 0.5:
        k = rng.randint(1, max_indel)
        return Small(gene, tx, g, gs[g], gs[g] + ''.join(rng.choice('ACGT') for _ in range(k)))
    k = rng.randint(1, max_indel)
    if g + k + 1 > len(gs):
        return None
    return Small(gene, tx, g, gs[g:g + k + 1], gs[g])


def interesting_sites(tx):
    """tx offsets around which variant clusters are centred."""
    out = []
    if tx.coding and tx.cds:
        out += [tx.cds[0], tx.cds[0] + 3, tx.cds[1], tx.cds[1] - 3]
        out += list(tx.sec)
    out += tx.junctions_tx()
    return [x for x in out if 0 <= x < tx.tx_len()]


def make_small_variants(rng, ref, tx, n, max_indel=4, snv_p=0.6, mnv_p=0.05, cluster=True, sigma=8,
                        centre=None):
    L = tx.tx_len()
    if centre is None:
        sites = interesting_sites(tx)
        if sites and rng.random() < 0.5:
            centre = rng.choice(sites)
        else:
            centre = rng.randrange(L)
    out = {}
    tries = 0
    while len(out) < n and tries < 200:
        tries += 1
        if cluster and rng.random() < 0.7:
            t = int(rng.gauss(centre, sigma))
        else:
            t = rng.randrange(L)
        if not 0 <= t < L:
            continue
        v = rand_small(rng, ref, tx, tx.tx2gene(t), max_indel, snv_p, mnv_p)
        if v is not None:
            out[v.id] = v
    return sorted(out.values(), key=lambda v: (v.gstart, v.gend, v.alt))
