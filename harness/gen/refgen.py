"""G-REF: random reference (genome / annotation / proteome) generator and writers.
Independent of moPepGen (in particular of moPepGen/fake.py)."""
from __future__ import annotations
import os
import re
from harness.model.seqmodel import Reference, Gene, Tx, STOPS, translate


def rand_dna(rng, n):
    return ''.join(rng.choice('ACGT') for _ in range(n))


def make_reference(rng, n_genes=1, coding_p=0.6, sec_p=0.15, nf_p=0.15,
                   min_exons=1, max_exons=5, exon_len=(20, 120), intron_len=(15, 80),
                   isoforms=(1, 1), n_chroms=1, strands=(1, -1), id_offset=0,
                   short_exon_p=0.0, overlap_p=0.0):
    """Genes laid out one after another on n_chroms chromosomes. The first transcript of each gene
    is built by writing an ORF into the genome; further isoforms reuse the genome as it is and are
    coding only if their spliced sequence happens to carry an ATG..stop ORF (never edited)."""
    ref = Reference()
    per_chrom = {f'chr{c + 1}': [] for c in range(n_chroms)}
    specs = []
    for gi in range(n_genes):
        chrom = f'chr{rng.randrange(n_chroms) + 1}'
        n_ex = rng.randint(min_exons, max_exons)
        exons = []
        g = 0
        for i in range(n_ex):
            if short_exon_p and rng.random() < short_exon_p:
                l = rng.randint(3, 12)
            else:
                l = rng.randint(*exon_len)
            exons.append((g, g + l))
            g += l
            if i < n_ex - 1:
                g += rng.randint(*intron_len)
        if sum(e - s for s, e in exons) < 30:      # degenerate transcripts (< 30 nt) are not generated
            exons[-1] = (exons[-1][0], exons[-1][1] + 30)
            g += 30
        specs.append((gi, chrom, g, rng.choice(strands), exons))
        per_chrom[chrom].append(gi)
    pos = {}
    noncoding_first = set()
    for chrom, gis in per_chrom.items():
        parts = [rand_dna(rng, rng.randint(5, 30))]
        p = len(parts[0])
        prev = None
        for gi in gis:
            glen = specs[gi][2]
            if overlap_p and prev is not None and rng.random() < overlap_p:
                # overlapping (e.g. antisense / read-through) gene: placed over the previous gene's range; it never edits
                # the genome (non-coding first transcript), so the previous gene's ORF stays intact
                ps, pe = pos[prev]
                start = rng.randint(ps, max(ps, pe - 10))
                pos[gi] = (start, start + glen)
                noncoding_first.add(gi)
                need = start + glen - p
                if need > 0:
                    parts.append(rand_dna(rng, need))
                    p += need
                    pad = rand_dna(rng, rng.randint(5, 30))
                    parts.append(pad)
                    p += len(pad)
                prev = gi if pos[gi][1] > pe else prev
                continue
            pos[gi] = (p, p + glen)
            parts.append(rand_dna(rng, glen))
            p += glen
            pad = rand_dna(rng, rng.randint(5, 30))
            parts.append(pad)
            p += len(pad)
            prev = gi
        ref.chroms[chrom] = ''.join(parts)
    for gi, chrom, glen, strand, exons in specs:
        s, e = pos[gi]
        coding = rng.random() < coding_p
        if gi in noncoding_first:
            coding = False
        k = gi + 1 + id_offset
        gene = Gene(f'ENSG{k:011d}.1', chrom, s, e, strand, f'GENE{k}',
                    'protein_coding' if coding else 'lncRNA')
        tx = Tx(f'ENST{k:08d}001.1', gene, exons, coding)
        gene.txs.append(tx)
        ref.genes.append(gene)
        if coding:
            _make_coding(rng, ref, gene, tx, sec_p, nf_p)
        n_iso = rng.randint(*isoforms)
        tries = 0
        while len(gene.txs) < n_iso and tries < 20:
            tries += 1
            ex2 = _alt_exons(rng, exons)
            if ex2 is None or any(t.exons == ex2 for t in gene.txs):
                continue
            t2 = Tx(f'ENST{k:08d}{len(gene.txs) + 1:03d}.1', gene, ex2, False)
            _find_coding(rng, ref, t2, coding_p)
            gene.txs.append(t2)
        if any(t.coding for t in gene.txs):
            gene.biotype = 'protein_coding'
    return ref


def _alt_exons(rng, exons):
    """Alternative isoform: skip exons, move boundaries (A5SS/A3SS like), keep intron partly."""
    ex = list(exons)
    n = len(ex)
    op = rng.choice(['skip', 'a5', 'a3', 'ri', 'trim'] if n > 1 else ['trim'])
    if op == 'skip':
        k = rng.randrange(n)
        ex = ex[:k] + ex[k + 1:]
    elif op == 'a5' and n > 1:      # move the end of an exon (not the last)
        k = rng.randrange(n - 1)
        s, e = ex[k]
        nxt = ex[k + 1][0]
        choices = [x for x in range(s + 3, nxt - 3) if x != e]
        if not choices:
            return None
        ex[k] = (s, rng.choice(choices))
    elif op == 'a3' and n > 1:      # move the start of an exon (not the first)
        k = rng.randrange(1, n)
        s, e = ex[k]
        prev = ex[k - 1][1]
        choices = [x for x in range(prev + 3, e - 3) if x != s]
        if not choices:
            return None
        ex[k] = (rng.choice(choices), e)
    elif op == 'ri' and n > 1:      # retain an intron: merge two exons
        k = rng.randrange(n - 1)
        ex = ex[:k] + [(ex[k][0], ex[k + 1][1])] + ex[k + 2:]
    else:                           # trim first/last exon (alternative tx start / end)
        if rng.random() < 0.5:
            s, e = ex[0]
            if e - s < 8:
                return None
            ex[0] = (rng.randint(s + 1, e - 4), e)
        else:
            s, e = ex[-1]
            if e - s < 8:
                return None
            ex[-1] = (s, rng.randint(s + 4, e - 1))
    if not ex:
        return None
    return ex


def _find_coding(rng, ref, tx, coding_p):
    """Make a secondary isoform coding if its sequence has a complete ORF (no genome edits)."""
    if rng.random() >= coding_p:
        return
    s = ref.tx_seq(tx)
    cands = []
    for m in re.finditer('(?=ATG)', s):
        st = m.start()
        aa = translate(s[st:])
        k = aa.find('*')
        if k >= 5 and st + 3 * k + 3 <= len(s):
            cands.append((st, st + 3 * k))
    if not cands:
        return
    tx.cds = rng.choice(cands)
    tx.coding = True
    tx.biotype = 'protein_coding'


def _make_coding(rng, ref, gene, tx, sec_p, nf_p):
    L = tx.tx_len()
    cds_start_nf = rng.random() < nf_p
    mrna_end_nf = rng.random() < nf_p
    if L < 40:
        cds_start_nf = mrna_end_nf = False
    if cds_start_nf:
        start = rng.randint(0, 2)   # frame offset of first CDS
    else:
        start = rng.randint(0, max(0, min(L // 3, 40)))
    n_codons_max = (L - start) // 3
    if mrna_end_nf:
        n_codons = n_codons_max
        end = start + n_codons * 3
    else:
        n_codons = rng.randint(max(4, n_codons_max // 2), max(4, n_codons_max - 1))
        n_codons = min(n_codons, n_codons_max - 1)
        end = start + n_codons * 3
    if n_codons < 4:
        tx.coding = False
        tx.biotype = 'lncRNA'
        gene.biotype = 'lncRNA'
        return

    def setb(i, b):
        ref.set_gene_base(gene, tx.tx2gene(i), b)

    if not cds_start_nf:
        for k, b in enumerate('ATG'):
            setb(start + k, b)
    s = ref.tx_seq(tx)
    for c in range(start + (0 if cds_start_nf else 3), end, 3):
        while s[c:c + 3] in STOPS:
            for k in range(3):
                setb(c + k, rng.choice('ACGT'))
            s = ref.tx_seq(tx)
    if not mrna_end_nf:
        for k, b in enumerate(rng.choice(sorted(STOPS))):
            setb(end + k, b)
    sec = []
    if rng.random() < sec_p and n_codons > 8:
        for _ in range(rng.choice((1, 1, 2, 3))):
            c = start + 3 * rng.randint(2, n_codons - 2)
            g0, g2 = tx.tx2gene(c), tx.tx2gene(c + 2)
            if g2 - g0 != 2 or c in sec:
                continue   # Sec codon is annotated as one 3-nt feature: must not span a junction
            for k, b in enumerate('TGA'):
                setb(c + k, b)
            sec.append(c)
    tx.cds = (start, end)
    tx.sec = sorted(sec)
    tx.cds_start_nf = cds_start_nf
    tx.mrna_end_nf = mrna_end_nf
    tx.coding = True
    tx.biotype = 'protein_coding'


# ----------------------------------------------------------------------------------------------
# writers

def gtf_lines(ref, style='GENCODE', utr_includes_stop=True, extra_attr=''):
    """GTF text lines (1-based inclusive). style GENCODE: 'UTR' features, gene_type attributes;
    style ENSEMBL: five_prime_utr/three_prime_utr, gene_biotype attributes, unversioned ids kept."""
    gtf = []
    btype = 'gene_type' if style == 'GENCODE' else 'gene_biotype'
    ttype = 'transcript_type' if style == 'GENCODE' else 'transcript_biotype'
    src = 'HAVANA' if style == 'GENCODE' else 'ensembl'
    for gene in ref.genes:
        st = '+' if gene.strand == 1 else '-'
        gattr = f'gene_id "{gene.id}"; {btype} "{gene.biotype}"; gene_name "{gene.name}";{extra_attr}'
        gtf.append('\t'.join([gene.chrom, src, 'gene', str(gene.start + 1), str(gene.end),
                              '.', st, '.', gattr]))
        for tx in gene.txs:
            tags = ''
            if tx.cds_start_nf:
                tags += ' tag "cds_start_NF";'
            if tx.mrna_end_nf:
                tags += ' tag "mRNA_end_NF";'
            tattr = (f'gene_id "{gene.id}"; transcript_id "{tx.id}"; {btype} "{gene.biotype}"; '
                     f'gene_name "{gene.name}"; {ttype} "{tx.biotype}";')
            if tx.coding:
                tattr += f' protein_id "{tx.protein_id}";'
            tattr += tags + extra_attr

            def gline(ftype, gs_, ge_, frame='.', tattr=tattr, gene=gene, st=st):
                if gene.strand == 1:
                    a, b = gene.start + gs_, gene.start + ge_
                else:
                    a, b = gene.end - ge_, gene.end - gs_
                return '\t'.join([gene.chrom, src, ftype, str(a + 1), str(b), '.', st,
                                  str(frame), tattr])
            gtf.append(gline('transcript', tx.exons[0][0], tx.exons[-1][1]))
            lines = []
            if tx.coding:
                cs, ce = tx.cds
                cs0 = 0 if tx.cds_start_nf else cs
                consumed = -cs if tx.cds_start_nf else 0
                off = 0
                utr5 = 'UTR' if style == 'GENCODE' else 'five_prime_utr'
                utr3n = 'UTR' if style == 'GENCODE' else 'three_prime_utr'
                for (s, e) in tx.exons:
                    l = e - s
                    a = max(off, cs0)
                    b = min(off + l, ce)
                    lines.append(gline('exon', s, e))
                    if a < b:
                        frame = (3 - consumed % 3) % 3 if consumed >= 0 else (-consumed) % 3
                        lines.append(gline('CDS', s + (a - off), s + (b - off), frame))
                        consumed += b - a
                    if off < cs0:
                        ue = min(off + l, cs0)
                        lines.append(gline(utr5, s, s + (ue - off)))
                    utr3 = ce if utr_includes_stop else ce + 3
                    if off + l > utr3 and utr3 < tx.tx_len():
                        us = max(off, utr3)
                        lines.append(gline(utr3n, s + (us - off), e))
                    off += l
                for c in tx.sec:
                    g0 = tx.tx2gene(c)
                    lines.append(gline('Selenocysteine', g0, g0 + 3))
            else:
                for (s, e) in tx.exons:
                    lines.append(gline('exon', s, e))
            gtf.extend(lines)
    return gtf


def proteome_entries(ref, style='GENCODE', leading_x=False):
    out = []
    for tx in ref.all_txs():
        if not tx.coding:
            continue
        aa = ref.protein(tx)
        if leading_x and tx.cds_start_nf:
            aa = 'X' + aa
        g = tx.gene
        if style == 'GENCODE':
            h = f'{tx.protein_id}|{tx.id}|{g.id}|-'
        else:
            h = (f'{tx.protein_id} pep chromosome:GRCh38:{g.chrom}:1:2:1 gene:{g.id} '
                 f'transcript:{tx.id} gene_biotype:protein_coding')
        out.append((h, aa))
    return out


def write_reference(ref, outdir, style='GENCODE', utr_includes_stop=True, leading_x=False):
    os.makedirs(outdir, exist_ok=True)
    with open(f'{outdir}/genome.fasta', 'w') as fh:
        for k, v in ref.chroms.items():
            fh.write(f'>{k}\n')
            for i in range(0, len(v), 60):
                fh.write(v[i:i + 60] + '\n')
    with open(f'{outdir}/annotation.gtf', 'w') as fh:
        fh.write('\n'.join(gtf_lines(ref, style, utr_includes_stop)) + '\n')
    with open(f'{outdir}/proteome.fasta', 'w') as fh:
        for h, s in proteome_entries(ref, style, leading_x):
            fh.write(f'>{h}\n{s}\n')
